package main

// Native replay of counterexamples: the same harness function, compiled by the Go
// compiler into the package under test (go test -overlay), reads the model values.

import (
	"encoding/json"
	"fmt"
	"os"
	"path/filepath"
	"sort"
	"strings"
	"time"
)

const replayTestTmpl = `//go:build verif

package PKGNAME

import (
	"fmt"
	"os"
	"strings"
	"testing"
)

var vxHarnesses = map[string]func(){
HARNESSES}

func vxRunOne(h func()) (status string) {
	defer func() {
		if r := recover(); r != nil {
			if s, ok := r.(vxStop); ok {
				status = "assume-false:" + s.why
				return
			}
			fmt.Printf("VX-PANIC: %v\n", r)
			if vxExpected != "" && strings.Contains(fmt.Sprint(r), vxExpected) {
				status = "expected-panic"
				return
			}
			status = "panic"
		}
	}()
	h()
	if len(vxFailed) > 0 {
		return "assert-failed:" + strings.Join(vxFailed, ",")
	}
	return "passed"
}

func TestVXReplay(t *testing.T) {
	for _, f := range strings.Split(os.Getenv("VX_REPLAY_FILES"), ",") {
		if f == "" {
			continue
		}
		if err := vxLoad(f); err != nil {
			fmt.Println("VX-REPLAY", f, "error:"+err.Error())
			continue
		}
		h := vxHarnesses[vxTable.Harness]
		if h == nil {
			fmt.Println("VX-REPLAY", f, "error:no-such-harness")
			continue
		}
		fmt.Println("VX-REPLAY-START", f)
		status := vxRunOne(h)
		fmt.Println("VX-REPLAY", f, status)
	}
}
`

func writeOverlayJSON(hs *harnessSet, extra map[string]string) (string, error) {
	repl := map[string]string{}
	for k, v := range hs.overlay {
		repl[k] = v
	}
	for k, v := range extra {
		repl[k] = v
	}
	p := filepath.Join(hs.scratch, fmt.Sprintf("overlay-%d.json", time.Now().UnixNano()))
	data, _ := json.Marshal(map[string]interface{}{"Replace": repl})
	return p, os.WriteFile(p, data, 0644)
}

// nativeReplay runs the replay files of one package; returns file -> confirmed|not-reproduced(...)
func nativeReplay(P *Program, hs *harnessSet, pkgDir string, files []string, verbose bool) map[string]string {
	res := map[string]string{}
	// generate the test file
	var names []string
	for name, d := range hs.funcs {
		if d == pkgDir {
			names = append(names, name)
		}
	}
	sort.Strings(names)
	var sb strings.Builder
	for _, n := range names {
		fmt.Fprintf(&sb, "\t%q: %s,\n", n, n)
	}
	pkgName := ""
	for virt, real := range hs.overlay {
		if filepath.Dir(virt) == filepath.Join(repoDir, pkgDir) && strings.HasSuffix(virt, "zz_vx_api.go") {
			data, _ := os.ReadFile(real)
			if m := pkgClauseRe.FindSubmatch(data); m != nil {
				pkgName = string(m[1])
			}
		}
	}
	src := strings.Replace(replayTestTmpl, "PKGNAME", pkgName, 1)
	src = strings.Replace(src, "HARNESSES", sb.String(), 1)
	testPath := filepath.Join(hs.scratch, strings.ReplaceAll(pkgDir, "/", "__")+"_zz_vx_replay_test.go")
	os.WriteFile(testPath, []byte(src), 0644)
	extra := map[string]string{filepath.Join(repoDir, pkgDir, "zz_vx_replay_test.go"): testPath}
	needSched := false
	for _, f := range files {
		var rf replayFile
		data, _ := os.ReadFile(f)
		json.Unmarshal(data, &rf)
		if len(rf.Sched) > 0 {
			needSched = true
		}
	}
	if needSched && P != nil {
		for k, v := range instrumentPackage(P, hs, pkgDir) {
			extra[k] = v
		}
	}
	ov, err := writeOverlayJSON(hs, extra)
	if err != nil {
		for _, f := range files {
			res[f] = "not-reproduced(overlay error)"
		}
		return res
	}
	expect := map[string]replayFile{}
	for _, f := range files {
		var rf replayFile
		data, _ := os.ReadFile(f)
		json.Unmarshal(data, &rf)
		expect[f] = rf
	}
	var remaining []string
	for _, f := range files {
		if expect[f].Kind == "race" {
			// lock-discipline findings: the natively compiled harness runs under the race detector
			env := append(goEnv(), "VX_REPLAY_FILES="+f, "TZ=UTC", "ELKROOT="+repoDir, "ELKPATH="+repoDir)
			out, _ := runCmd(repoDir, env, 15*time.Minute, "go", "test", "-race", "-tags", "verif", "-vet=off", "-count=3", "-timeout", "120s", "-modfile="+hs.modfile, "-overlay", ov, "-run", "^TestVXReplay$", "-v", "./"+pkgDir)
			if strings.Contains(out, "WARNING: DATA RACE") {
				res[f] = "confirmed"
			} else {
				res[f] = "not-reproduced(race detector silent: " + firstLines(lastLines(out, 3), 3) + ")"
			}
			continue
		}
		if expect[f].Kind != "hang" && expect[f].Kind != "deadlock" {
			remaining = append(remaining, f)
			continue
		}
		// termination violations: run alone under a short test timeout
		env := append(goEnv(), "VX_REPLAY_FILES="+f, "TZ=UTC", "ELKROOT="+repoDir, "ELKPATH="+repoDir)
		out, _ := runCmd(repoDir, env, 10*time.Minute, "go", "test", "-tags", "verif", "-vet=off", "-count=1", "-timeout", "20s", "-modfile="+hs.modfile, "-overlay", ov, "-run", "^TestVXReplay$", "-v", "./"+pkgDir)
		if strings.Contains(out, "test timed out") && strings.Contains(out, "VX-REPLAY-START "+f) {
			res[f] = "confirmed"
		} else {
			res[f] = "not-reproduced(terminated: " + firstLines(lastLines(out, 3), 3) + ")"
		}
	}
	for len(remaining) > 0 {
		env := append(goEnv(), "VX_REPLAY_FILES="+strings.Join(remaining, ","), "TZ=UTC", "ELKROOT="+repoDir, "ELKPATH="+repoDir)
		out, err := runCmd(repoDir, env, 15*time.Minute, "go", "test", "-tags", "verif", "-vet=off", "-count=1", "-timeout", "180s", "-modfile="+hs.modfile, "-overlay", ov, "-run", "^TestVXReplay$", "-v", "./"+pkgDir)
		if verbose {
			fmt.Fprintf(os.Stderr, "--- replay output (%s)\n%s\n", pkgDir, firstLines(out, 80))
		}
		started := ""
		doneSet := map[string]bool{}
		for _, line := range strings.Split(out, "\n") {
			line = strings.TrimSpace(line)
			if strings.HasPrefix(line, "VX-REPLAY-START ") {
				started = strings.TrimPrefix(line, "VX-REPLAY-START ")
			} else if strings.HasPrefix(line, "VX-REPLAY ") {
				parts := strings.SplitN(strings.TrimPrefix(line, "VX-REPLAY "), " ", 2)
				if len(parts) == 2 {
					f, status := parts[0], parts[1]
					res[f] = judgeReplay(expect[f], status)
					doneSet[f] = true
					started = ""
				}
			}
		}
		var rest []string
		crashed := false
		for _, f := range remaining {
			if doneSet[f] {
				continue
			}
			if f == started && !crashed {
				// the process died while this harness ran
				crashed = true
				rf := expect[f]
				switch {
				case strings.Contains(out, "fatal error:") && (rf.Kind == "fatal" || rf.Kind == "panic"):
					res[f] = "confirmed"
				case strings.Contains(out, "panic:") && (rf.Kind == "panic" || rf.Kind == "fatal"):
					res[f] = "confirmed"
				case err != nil && strings.Contains(err.Error(), "timeout") && rf.Kind == "deadlock":
					res[f] = "confirmed"
				default:
					res[f] = "not-reproduced(process ended: " + firstLines(lastLines(out, 3), 3) + ")"
				}
				continue
			}
			rest = append(rest, f)
		}
		if !crashed && len(rest) == len(remaining) {
			// nothing ran: build failure or similar
			for _, f := range rest {
				res[f] = "not-reproduced(replay build/run failed: " + firstLines(lastLines(out, 6), 6) + ")"
			}
			break
		}
		remaining = rest
	}
	return res
}

func lastLines(s string, n int) string {
	lines := strings.Split(strings.TrimSpace(s), "\n")
	if len(lines) > n {
		lines = lines[len(lines)-n:]
	}
	return strings.Join(lines, "\n")
}

func judgeReplay(rf replayFile, status string) string {
	switch rf.Kind {
	case "assert":
		if strings.HasPrefix(status, "assert-failed:") {
			ids := strings.Split(strings.TrimPrefix(status, "assert-failed:"), ",")
			for _, id := range ids {
				if id == rf.Assertion {
					return "confirmed"
				}
			}
			return "not-reproduced(other assertion failed: " + status + ")"
		}
	case "panic", "fatal":
		if status == "panic" {
			return "confirmed"
		}
		// forming a pointer outside its object does not trap natively; the input is confirmed
		// when the native run shows the consequence (an assertion of the harness fails)
		if strings.HasPrefix(rf.Msg, "invalid unsafe pointer") && strings.HasPrefix(status, "assert-failed:") {
			return "confirmed"
		}
	}
	return "not-reproduced(" + status + ")"
}

func cmdReplay(args []string) int {
	if len(args) < 1 {
		fmt.Fprintln(os.Stderr, "usage: vx replay <file>")
		return 2
	}
	var rf replayFile
	data, err := os.ReadFile(args[0])
	if err != nil {
		fmt.Fprintln(os.Stderr, err)
		return 2
	}
	if err := json.Unmarshal(data, &rf); err != nil {
		fmt.Fprintln(os.Stderr, err)
		return 2
	}
	hs, err := prepareHarness(rf.Property, nil)
	if err != nil {
		fmt.Fprintln(os.Stderr, err)
		return 2
	}
	defer hs.cleanup()
	abs, _ := filepath.Abs(args[0])
	var P *Program
	if len(rf.Sched) > 0 {
		// schedule replays need the instrumented copy of the package: load the tree
		if lp, err := loadProgram(hs); err == nil {
			P = lp
		}
	}
	res := nativeReplay(P, hs, rf.Pkg, []string{abs}, true)
	fmt.Printf("replay %s: %s\n", args[0], res[abs])
	if res[abs] == "confirmed" {
		fmt.Printf("VIOLATION property=%s replay=%s\n", rf.Property, abs)
		return 1
	}
	return 0
}
