package main

// sync/atomic package-level functions (assembly in the real runtime): sequentially
// consistent loads/stores on the modelled heap. Atomicity is trivial because threads of
// the modelled program only interleave at visible operations (sched.go).

import (
	"go/token"
	"go/types"
	"strings"

	"golang.org/x/tools/go/ssa"
)

func init() {
	kinds := []string{"Int32", "Int64", "Uint32", "Uint64", "Uintptr", "Pointer"}
	for _, k := range kinds {
		kind := k
		registerIntrinsic("sync/atomic.Load"+kind, func(ex *Exec, fr *Frame, fn *ssa.Function, a []Value, site ssa.Instruction) Value {
			return ex.load(a[0].(Pointer), ex.posOf(site))
		})
		registerIntrinsic("sync/atomic.Store"+kind, func(ex *Exec, fr *Frame, fn *ssa.Function, a []Value, site ssa.Instruction) Value {
			ex.store(a[0].(Pointer), a[1], ex.posOf(site))
			return nil
		})
		registerIntrinsic("sync/atomic.Swap"+kind, func(ex *Exec, fr *Frame, fn *ssa.Function, a []Value, site ssa.Instruction) Value {
			old := ex.load(a[0].(Pointer), ex.posOf(site))
			ex.store(a[0].(Pointer), a[1], ex.posOf(site))
			return old
		})
		registerIntrinsic("sync/atomic.CompareAndSwap"+kind, func(ex *Exec, fr *Frame, fn *ssa.Function, a []Value, site ssa.Instruction) Value {
			p := a[0].(Pointer)
			cur := ex.load(p, ex.posOf(site))
			t := fn.Signature.Params().At(1).Type()
			eq := ex.valueEq(cur, a[1], t, site)
			if ex.branch(eq, "atomic CAS") {
				ex.store(p, a[2], ex.posOf(site))
				return ex.ts.True()
			}
			return ex.ts.False()
		})
		if kind != "Pointer" {
			registerIntrinsic("sync/atomic.Add"+kind, func(ex *Exec, fr *Frame, fn *ssa.Function, a []Value, site ssa.Instruction) Value {
				p := a[0].(Pointer)
				t := fn.Signature.Params().At(1).Type()
				cur := ex.load(p, ex.posOf(site))
				nv := ex.binop(token.ADD, cur, a[1], t, t, site)
				ex.store(p, nv, ex.posOf(site))
				return nv
			})
			registerIntrinsic("sync/atomic.And"+kind, func(ex *Exec, fr *Frame, fn *ssa.Function, a []Value, site ssa.Instruction) Value {
				p := a[0].(Pointer)
				t := fn.Signature.Params().At(1).Type()
				cur := ex.load(p, ex.posOf(site))
				ex.store(p, ex.binop(token.AND, cur, a[1], t, t, site), ex.posOf(site))
				return cur
			})
			registerIntrinsic("sync/atomic.Or"+kind, func(ex *Exec, fr *Frame, fn *ssa.Function, a []Value, site ssa.Instruction) Value {
				p := a[0].(Pointer)
				t := fn.Signature.Params().At(1).Type()
				cur := ex.load(p, ex.posOf(site))
				ex.store(p, ex.binop(token.OR, cur, a[1], t, t, site), ex.posOf(site))
				return cur
			})
		}
	}
	_ = types.Typ
	_ = strings.Contains
}
