package main

// Model of time.Time over the proleptic Gregorian calendar, location fixed to UTC:
// a Time is (days since 1970-01-01, nanoseconds of the day), kept in the real struct's
// fields (ext = days, wall = ns of day). time.Date normalises month and day the way package
// time does (months outside 1..12 carry into the year, days outside the month carry over);
// hour/minute/second/nanosecond must already be in range. Year/Month/Day come from the
// standard civil-from-days algorithm, Add/Sub/Compare are integer arithmetic on the pair.
// Replays run with TZ=UTC.

import (
	"go/types"
	"golang.org/x/tools/go/ssa"
)

const nsPerDay = 86400 * 1000000000

type tmath struct{ ex *Exec }

func (m tmath) k(v int64) *Term          { return m.ex.ts.BVSigned(64, v) }
func (m tmath) add(a, b *Term) *Term      { return m.ex.ts.BVBin("bvadd", a, b) }
func (m tmath) sub(a, b *Term) *Term      { return m.ex.ts.BVBin("bvsub", a, b) }
func (m tmath) mul(a *Term, c int64) *Term { return m.ex.ts.BVBin("bvmul", a, m.k(c)) }
func (m tmath) lt(a, b *Term) *Term       { return m.ex.ts.BVCmp("bvslt", a, b) }
func (m tmath) le(a, b *Term) *Term       { return m.ex.ts.BVCmp("bvsle", a, b) }
func (m tmath) ite(c, a, b *Term) *Term   { return m.ex.ts.Ite(c, a, b) }

// floor division by a positive constant, encoded with witnesses instead of bvsdiv (which the
// solvers do not decide at 64 bits): fresh q, r with a = q*c + r, 0 <= r < c, |q| small enough
// that q*c cannot wrap. The witnesses are functions of a, so sat and unsat stay exact for
// |a| < 2^62 (stated assumption; all calendar quantities are far below it).
func (m tmath) fdiv(a *Term, c int64) *Term {
	ex := m.ex
	ts := ex.ts
	if a.Const {
		v := a.BigS().Int64()
		q := v / c
		if v%c < 0 {
			q--
		}
		return m.k(q)
	}
	ck := m.k(c)
	if ex.divCache == nil {
		ex.divCache = map[[2]*Term][2]*Term{}
	}
	if w, ok := ex.divCache[[2]*Term{a, ck}]; ok {
		return w[0]
	}
	// a*k with a constant k that is a multiple of c divides exactly
	if a.Op == "bvmul" {
		for i := 0; i < 2; i++ {
			if kc := a.Args[i]; kc.Const && kc.B == nil {
				if kv := int64(kc.U); kv != 0 && kv%c == 0 {
					q := m.mul(a.Args[1-i], kv/c)
					ex.divCache[[2]*Term{a, ck}] = [2]*Term{q, m.k(0)}
					return q
				}
			}
		}
	}
	// small quotients: when the solver shows -R*c <= a < R*c the quotient is an if-then-else
	// chain over the 2R candidate values (no multiplication for the solver to invert)
	if ex.sol != nil && ex.specDepth == 0 {
		for _, R := range []int64{8, 64} {
			if R > (int64(1)<<61)/c {
				break
			}
			inside := ts.And(m.le(m.k(-R*c), a), m.lt(a, m.k(R*c)))
			if ex.sol.Check(ts.Not(inside)) != "unsat" {
				continue
			}
			q := m.k(R - 1)
			for k := R - 2; k >= -R; k-- {
				q = m.ite(m.lt(a, m.k((k+1)*c)), m.k(k), q)
			}
			ex.divCache[[2]*Term{a, ck}] = [2]*Term{q, m.sub(a, m.mul(q, c))}
			return q
		}
	}
	q := ex.freshVar("tq", BV(64))
	r := ex.freshVar("tr", BV(64))
	bound := int64(1) << 62 / c
	cons := ts.And(ts.Eq(a, m.add(m.mul(q, c), r)),
		ts.And(ts.And(m.le(m.k(0), r), m.lt(r, ck)),
			ts.And(m.le(m.k(-bound), q), m.le(q, m.k(bound)))))
	ex.assertPC(cons)
	ex.assumptions["time model: calendar quantities stay below 2^62 in magnitude (division by witnesses)"] = true
	ex.divCache[[2]*Term{a, ck}] = [2]*Term{q, r}
	return q
}
func (m tmath) fmod(a *Term, c int64) *Term { return m.sub(a, m.mul(m.fdiv(a, c), c)) }

// division of a value known to be non-negative: the same witnesses
func (m tmath) udiv(a *Term, c int64) *Term { return m.fdiv(a, c) }

func (m tmath) eqk(a *Term, k int64) *Term { return m.ex.ts.Eq(a, m.k(k)) }

func (m tmath) leap(y *Term) *Term {
	ts := m.ex.ts
	if !y.Const {
		// the leap rule is decided per concrete year (one path per feasible year, at most 16)
		y = m.ex.concretize(y, 16, "year for the leap-year rule")
		v := y.BigS().Int64()
		return ts.Bool((v%4 == 0 && v%100 != 0) || v%400 == 0)
	}
	return ts.Or(ts.And(m.eqk(m.fmod(y, 4), 0), ts.Not(m.eqk(m.fmod(y, 100), 0))), m.eqk(m.fmod(y, 400), 0))
}

// days in month mo (1..12) of year y
func (m tmath) dim(y, mo *Term) *Term {
	ts := m.ex.ts
	thirty := ts.Or(ts.Or(m.eqk(mo, 4), m.eqk(mo, 6)), ts.Or(m.eqk(mo, 9), m.eqk(mo, 11)))
	return m.ite(m.eqk(mo, 2), m.ite(m.leap(y), m.k(29), m.k(28)), m.ite(thirty, m.k(30), m.k(31)))
}

// normDay carries a day number outside its month into the neighbouring months (at most
// normSteps months in either direction); ok tells whether the result is a valid date.
const normSteps = 3

func (m tmath) normDay(y, mo, d *Term) (ny, nmo, nd, ok *Term) {
	ts := m.ex.ts
	for i := 0; i < normSteps; i++ {
		dm := m.dim(y, mo)
		over := m.lt(dm, d)
		d = m.ite(over, m.sub(d, dm), d)
		wrap := ts.And(over, m.eqk(mo, 12))
		y = m.ite(wrap, m.add(y, m.k(1)), y)
		mo = m.ite(over, m.ite(wrap, m.k(1), m.add(mo, m.k(1))), mo)
	}
	for i := 0; i < normSteps; i++ {
		under := m.lt(d, m.k(1))
		wrap := ts.And(under, m.eqk(mo, 1))
		py := m.ite(wrap, m.sub(y, m.k(1)), y)
		pmo := m.ite(under, m.ite(wrap, m.k(12), m.sub(mo, m.k(1))), mo)
		d = m.ite(under, m.add(d, m.dim(py, pmo)), d)
		y, mo = py, pmo
	}
	ok = ts.And(m.le(m.k(1), d), m.le(d, m.dim(y, mo)))
	return y, mo, d, ok
}

// a Time is kept as civil and clock fields: ext = year,
// wall = month<<52 | day<<47 | hour<<42 | minute<<36 | second<<30 | nanosecond
func (m tmath) pack(mo, d, h, mi, sec, ns *Term) *Term {
	ts := m.ex.ts
	sh := func(t *Term, k uint64) *Term { return ts.BVBin("bvshl", t, ts.BVConst(64, k)) }
	or := func(a, b *Term) *Term { return ts.BVBin("bvor", a, b) }
	return or(or(or(sh(mo, 52), sh(d, 47)), or(sh(h, 42), sh(mi, 36))), or(sh(sec, 30), ns))
}

type timeFields struct {
	y, mo, d, h, mi, sec, ns *Term
	st                       *StructV
}

func (ex *Exec) timeParts(v Value) timeFields {
	st, ok := v.(*StructV)
	if !ok {
		ex.unsupported("time.Time value is %T", v)
	}
	w, ok1 := st.Fields[0].(*Term)
	y, ok2 := st.Fields[1].(*Term)
	if !ok1 || !ok2 {
		ex.unsupported("time.Time fields")
	}
	if p, ok := st.Fields[2].(Pointer); ok && p.Obj != nil {
		if _, fixed := ex.zoneOffsets[p.Obj]; fixed {
			ex.unsupported("civil fields of a time in a time.FixedZone location (the time model is UTC only)")
		}
	}
	ts := ex.ts
	field := func(shift uint64, width int) *Term {
		r := ts.BVBin("bvlshr", w, ts.BVConst(64, shift))
		return ts.BVBin("bvand", r, ts.BVConst(64, (uint64(1)<<uint(width))-1))
	}
	return timeFields{y: y, mo: field(52, 4), d: field(47, 5), h: field(42, 5), mi: field(36, 6), sec: field(30, 6), ns: field(0, 30), st: st}
}

func (ex *Exec) timeMake(like *StructV, y, mo, d, h, mi, sec, ns *Term, loc Value) *StructV {
	fs := append([]Value(nil), like.Fields...)
	fs[0], fs[1] = tmath{ex}.pack(mo, d, h, mi, sec, ns), y
	if loc != nil {
		fs[2] = loc
	}
	return &StructV{Fields: fs}
}

func init() {
	note := "package time is modelled over the proleptic Gregorian calendar in UTC as civil fields (year, month, day, ns of day); time.Date carries months outside 1..12 into the year and days outside the month into at most 3 neighbouring months; hour/minute/second/nanosecond arguments must be in range; Add moves by at most 3 months of days; Sub, Unix, Weekday and time zones are not modelled"
	registerIntrinsic("time.Date", func(ex *Exec, fr *Frame, fn *ssa.Function, a []Value, site ssa.Instruction) Value {
		if ex.intMode {
			ex.unsupported("time model in int mode")
		}
		ts := ex.ts
		m := tmath{ex}
		y, mo, d := a[0].(*Term), a[1].(*Term), a[2].(*Term)
		h, mi, s, ns := a[3].(*Term), a[4].(*Term), a[5].(*Term), a[6].(*Term)
		in := func(t *Term, lo, hi int64) *Term { return ts.And(m.le(m.k(lo), t), m.le(t, m.k(hi))) }
		norm := ts.And(in(h, 0, 23), ts.And(in(mi, 0, 59), ts.And(in(s, 0, 59), in(ns, 0, 999999999))))
		if !norm.IsTrue() {
			if !ex.branch(norm, "time.Date clock fields in range") {
				ex.unsupported("time.Date with hour/minute/second/nanosecond outside their ranges")
			}
		}
		ex.assumptions[note] = true
		// months
		inMonth := in(mo, 1, 12)
		if !inMonth.IsTrue() && !ex.branch(inMonth, "time.Date month in 1..12") {
			m0 := m.sub(mo, m.k(1))
			y = m.add(y, m.fdiv(m0, 12))
			mo = m.add(m.fmod(m0, 12), m.k(1))
		}
		// days
		simple := in(d, 1, 28)
		if !simple.IsTrue() && !ex.branch(simple, "time.Date day in 1..28") {
			var ok *Term
			y, mo, d, ok = m.normDay(y, mo, d)
			if !ok.IsTrue() && !ex.branch(ok, "time.Date day within 3 months of its month") {
				ex.unsupported("time.Date with a day more than 3 months outside its month")
			}
		}
		rt := fn.Signature.Results().At(0).Type()
		z := ex.zero(rt).(*StructV)
		return ex.timeMake(z, y, mo, d, h, mi, s, ns, a[7])
	})
	get := func(name string, f func(timeFields) *Term) {
		registerIntrinsic("(time.Time)."+name, func(ex *Exec, fr *Frame, fn *ssa.Function, a []Value, site ssa.Instruction) Value {
			return f(ex.timeParts(a[0]))
		})
	}
	get("Year", func(t timeFields) *Term { return t.y })
	get("Month", func(t timeFields) *Term { return t.mo })
	get("Day", func(t timeFields) *Term { return t.d })
	get("Hour", func(t timeFields) *Term { return t.h })
	get("Minute", func(t timeFields) *Term { return t.mi })
	get("Second", func(t timeFields) *Term { return t.sec })
	get("Nanosecond", func(t timeFields) *Term { return t.ns })
	registerIntrinsic("(time.Time).Location", func(ex *Exec, fr *Frame, fn *ssa.Function, a []Value, site ssa.Instruction) Value {
		return a[0].(*StructV).Fields[2]
	})
	registerIntrinsic("(time.Time).Add", func(ex *Exec, fr *Frame, fn *ssa.Function, a []Value, site ssa.Instruction) Value {
		t := ex.timeParts(a[0])
		m := tmath{ex}
		if dur := a[1].(*Term); true {
			// a duration that is syntactically a whole number of days moves the date only
			var whole *Term
			if dur.Const && dur.B == nil && int64(dur.U)%nsPerDay == 0 {
				whole = m.k(int64(dur.U) / nsPerDay)
			} else if dur.Op == "bvmul" {
				for i := 0; i < 2; i++ {
					if kc := dur.Args[i]; kc.Const && kc.B == nil && int64(kc.U) != 0 && int64(kc.U)%nsPerDay == 0 {
						whole = m.mul(dur.Args[1-i], int64(kc.U)/nsPerDay)
					}
				}
			} else if dur.Op == "bvneg" && dur.Args[0].Op == "bvmul" {
				in := dur.Args[0]
				for i := 0; i < 2; i++ {
					if kc := in.Args[i]; kc.Const && kc.B == nil && int64(kc.U) != 0 && int64(kc.U)%nsPerDay == 0 {
						whole = m.ex.ts.BVNeg(m.mul(in.Args[1-i], int64(kc.U)/nsPerDay))
					}
				}
			}
			if whole != nil {
				ny, nmo, nd, ok := m.normDay(t.y, t.mo, m.add(t.d, whole))
				if !ok.IsTrue() && !ex.branch(ok, "time.Add within 3 months") {
					ex.unsupported("time.Time.Add by more than about 3 months of days")
				}
				return ex.timeMake(t.st, ny, nmo, nd, t.h, t.mi, t.sec, t.ns, nil)
			}
		}
		nsOfDay := m.add(m.mul(m.add(m.mul(m.add(m.mul(t.h, 60), t.mi), 60), t.sec), 1000000000), t.ns)
		total := m.add(nsOfDay, a[1].(*Term))
		dd := m.fdiv(total, nsPerDay)
		rest := m.sub(total, m.mul(dd, nsPerDay))
		secs := m.fdiv(rest, 1000000000)
		nns := m.sub(rest, m.mul(secs, 1000000000))
		mins := m.fdiv(secs, 60)
		nsec := m.sub(secs, m.mul(mins, 60))
		nh := m.fdiv(mins, 60)
		nmi := m.sub(mins, m.mul(nh, 60))
		ny, nmo, nd, ok := m.normDay(t.y, t.mo, m.add(t.d, dd))
		if !ok.IsTrue() && !ex.branch(ok, "time.Add within 3 months") {
			ex.unsupported("time.Time.Add by more than about 3 months of days")
		}
		return ex.timeMake(t.st, ny, nmo, nd, nh, nmi, nsec, nns, nil)
	})
	registerIntrinsic("(time.Time).In", func(ex *Exec, fr *Frame, fn *ssa.Function, a []Value, site ssa.Instruction) Value {
		if p, ok := a[1].(Pointer); ok && p.Obj != nil {
			if _, fixed := ex.zoneOffsets[p.Obj]; fixed {
				// a time.FixedZone location: only Zone() is modelled on the result (timeParts refuses it)
				st := a[0].(*StructV)
				fs := append([]Value(nil), st.Fields...)
				fs[2] = a[1]
				return &StructV{Fields: fs}
			}
		}
		return a[0]
	})
	// time.FixedZone(name, offset): an opaque Location whose only modelled property is the offset
	registerIntrinsic("time.FixedZone", func(ex *Exec, fr *Frame, fn *ssa.Function, a []Value, site ssa.Instruction) Value {
		rt := fn.Signature.Results().At(0).Type().(*types.Pointer).Elem()
		o := ex.newObject(rt, "time.FixedZone")
		if ex.zoneOffsets == nil {
			ex.zoneOffsets = map[*Object]*Term{}
		}
		ex.zoneOffsets[o] = a[1].(*Term)
		return Pointer{Obj: o}
	})
	registerIntrinsic("(time.Time).Zone", func(ex *Exec, fr *Frame, fn *ssa.Function, a []Value, site ssa.Instruction) Value {
		st, ok := a[0].(*StructV)
		if !ok {
			ex.unsupported("time.Time value is %T", a[0])
		}
		if p, ok := st.Fields[2].(Pointer); ok && p.Obj != nil {
			if off, fixed := ex.zoneOffsets[p.Obj]; fixed {
				return TupleV{ex.strConst("<zone>"), off}
			}
		}
		ex.unsupported("time.Time.Zone of a location that is not a time.FixedZone")
		return nil
	})
	registerIntrinsic("(time.Time).UTC", func(ex *Exec, fr *Frame, fn *ssa.Function, a []Value, site ssa.Instruction) Value {
		return a[0]
	})
}

func init() {
	cmp := func(ex *Exec, a, b Value) *Term {
		ts := ex.ts
		x, y := a.(*StructV), b.(*StructV)
		yx, yy := x.Fields[1].(*Term), y.Fields[1].(*Term)
		wx, wy := x.Fields[0].(*Term), y.Fields[0].(*Term)
		lt := ts.Or(ts.BVCmp("bvslt", yx, yy), ts.And(ts.Eq(yx, yy), ts.BVCmp("bvult", wx, wy)))
		gt := ts.Or(ts.BVCmp("bvsgt", yx, yy), ts.And(ts.Eq(yx, yy), ts.BVCmp("bvugt", wx, wy)))
		return ts.Ite(lt, ex.goInt(-1), ts.Ite(gt, ex.goInt(1), ex.goInt(0)))
	}
	registerIntrinsic("(time.Time).Compare", func(ex *Exec, fr *Frame, fn *ssa.Function, a []Value, site ssa.Instruction) Value {
		return cmp(ex, a[0], a[1])
	})
	registerIntrinsic("(time.Time).Before", func(ex *Exec, fr *Frame, fn *ssa.Function, a []Value, site ssa.Instruction) Value {
		return ex.ts.Eq(cmp(ex, a[0], a[1]), ex.goInt(-1))
	})
	registerIntrinsic("(time.Time).After", func(ex *Exec, fr *Frame, fn *ssa.Function, a []Value, site ssa.Instruction) Value {
		return ex.ts.Eq(cmp(ex, a[0], a[1]), ex.goInt(1))
	})
	registerIntrinsic("(time.Time).Equal", func(ex *Exec, fr *Frame, fn *ssa.Function, a []Value, site ssa.Instruction) Value {
		return ex.ts.Eq(cmp(ex, a[0], a[1]), ex.goInt(0))
	})
}
