package main

// A thin model of time.Time: time.Date(y, m, d, h, mi, s, ns, loc) with already normalised
// fields (1<=m<=12, 1<=d<=28, 0<=h<24, 0<=mi<60, 0<=s<60, 0<=ns<1e9) denotes exactly that
// civil date-time; Year/Month/Day/Hour/Minute/Second/Nanosecond return the fields.
// Anything that needs calendar arithmetic (Add, AddDate, Sub, Unix, Weekday, ...) is not
// modelled and makes the path unsupported.

import (
	"go/types"

	"golang.org/x/tools/go/ssa"
)

// The model stores the fields in the real struct: ext = year, wall = packed rest.
func (ex *Exec) timePack(m, d, h, mi, s, ns *Term) *Term {
	ts := ex.ts
	if ex.intMode {
		ex.unsupported("time model in int mode")
	}
	sh := func(t *Term, k uint64) *Term { return ts.BVBin("bvshl", t, ts.BVConst(64, k)) }
	w := ts.BVBin("bvor", sh(m, 56), sh(d, 48))
	w = ts.BVBin("bvor", w, sh(h, 40))
	w = ts.BVBin("bvor", w, sh(mi, 34))
	w = ts.BVBin("bvor", w, sh(s, 28))
	// ns needs 30 bits: keep it in the low 28 bits only when it fits; otherwise unsupported
	return ts.BVBin("bvor", w, ts.BVBin("bvand", ns, ts.BVConst(64, (1<<28)-1)))
}

func (ex *Exec) timeField(v Value, shift uint64, width int) *Term {
	st, ok := v.(*StructV)
	if !ok {
		ex.unsupported("time.Time value is %T", v)
	}
	w, ok := st.Fields[0].(*Term)
	if !ok {
		ex.unsupported("time.Time wall word")
	}
	ts := ex.ts
	r := ts.BVBin("bvlshr", w, ts.BVConst(64, shift))
	return ts.BVBin("bvand", r, ts.BVConst(64, (uint64(1)<<uint(width))-1))
}

func init() {
	registerIntrinsic("time.Date", func(ex *Exec, fr *Frame, fn *ssa.Function, a []Value, site ssa.Instruction) Value {
		ts := ex.ts
		y, m, d := a[0].(*Term), a[1].(*Term), a[2].(*Term)
		h, mi, s, ns := a[3].(*Term), a[4].(*Term), a[5].(*Term), a[6].(*Term)
		in := func(t *Term, lo, hi int64) *Term {
			return ts.And(ts.BVCmp("bvsge", t, ts.BVSigned(64, lo)), ts.BVCmp("bvsle", t, ts.BVSigned(64, hi)))
		}
		norm := ts.And(in(m, 1, 12), ts.And(in(d, 1, 28), ts.And(in(h, 0, 23), ts.And(in(mi, 0, 59), ts.And(in(s, 0, 59), in(ns, 0, (1<<28)-1))))))
		if !norm.IsTrue() {
			if !ex.branch(norm, "time.Date fields normalised") {
				ex.unsupported("time.Date with fields that need calendar normalisation (month outside 1..12, day > 28, ...)")
			}
		}
		ex.assumptions["time.Date is modelled for normalised fields only (1<=month<=12, 1<=day<=28, ns < 2^28); calendar arithmetic of package time is not modelled"] = true
		rt := fn.Signature.Results().At(0).Type()
		z := ex.zero(rt).(*StructV)
		fs := append([]Value(nil), z.Fields...)
		fs[0] = ex.timePack(m, d, h, mi, s, ns)
		fs[1] = y
		fs[2] = a[7]
		return &StructV{Fields: fs}
	})
	field := func(name string, shift uint64, width int) {
		registerIntrinsic("(time.Time)."+name, func(ex *Exec, fr *Frame, fn *ssa.Function, a []Value, site ssa.Instruction) Value {
			return ex.timeField(a[0], shift, width)
		})
	}
	field("Month", 56, 8)
	field("Day", 48, 8)
	field("Hour", 40, 8)
	field("Minute", 34, 6)
	field("Second", 28, 6)
	field("Nanosecond", 0, 28)
	registerIntrinsic("(time.Time).Year", func(ex *Exec, fr *Frame, fn *ssa.Function, a []Value, site ssa.Instruction) Value {
		return a[0].(*StructV).Fields[1]
	})
	registerIntrinsic("(time.Time).Location", func(ex *Exec, fr *Frame, fn *ssa.Function, a []Value, site ssa.Instruction) Value {
		return a[0].(*StructV).Fields[2]
	})
	_ = types.Typ
}

func init() {
	cmp := func(ex *Exec, a, b Value) *Term {
		ts := ex.ts
		x, y := a.(*StructV), b.(*StructV)
		yx, yy := x.Fields[1].(*Term), y.Fields[1].(*Term)
		wx, wy := x.Fields[0].(*Term), y.Fields[0].(*Term)
		lt := ts.Or(ts.BVCmp("bvslt", yx, yy), ts.And(ts.Eq(yx, yy), ts.BVCmp("bvult", wx, wy)))
		gt := ts.Or(ts.BVCmp("bvsgt", yx, yy), ts.And(ts.Eq(yx, yy), ts.BVCmp("bvugt", wx, wy)))
		return ts.Ite(lt, ex.goInt(-1), ts.Ite(gt, ex.goInt(1), ex.goInt(0)))
	}
	registerIntrinsic("(time.Time).Compare", func(ex *Exec, fr *Frame, fn *ssa.Function, a []Value, site ssa.Instruction) Value {
		return cmp(ex, a[0], a[1])
	})
	registerIntrinsic("(time.Time).Before", func(ex *Exec, fr *Frame, fn *ssa.Function, a []Value, site ssa.Instruction) Value {
		return ex.ts.Eq(cmp(ex, a[0], a[1]), ex.goInt(-1))
	})
	registerIntrinsic("(time.Time).After", func(ex *Exec, fr *Frame, fn *ssa.Function, a []Value, site ssa.Instruction) Value {
		return ex.ts.Eq(cmp(ex, a[0], a[1]), ex.goInt(1))
	})
	registerIntrinsic("(time.Time).Equal", func(ex *Exec, fr *Frame, fn *ssa.Function, a []Value, site ssa.Instruction) Value {
		return ex.ts.Eq(cmp(ex, a[0], a[1]), ex.goInt(0))
	})
}
