package main

// vx: solver-based checking of elk by symbolic execution of go/ssa.
//
//   vx run --prop C06 --tier quick     run every harness VX_C06_* (and sweeps) and write evidence
//   vx replay <file>                   replay one counterexample natively
//   vx selftest                        engine conformance tests

import (
	"encoding/json"
	"flag"
	"fmt"
	"go/types"
	"os"
	"os/exec"
	"path/filepath"
	"regexp"
	"runtime/pprof"
	"sort"
	"strconv"
	"strings"
	"time"

	"golang.org/x/tools/go/packages"
	"golang.org/x/tools/go/ssa"
	"golang.org/x/tools/go/ssa/ssautil"
)

var (
	repoDir  = envOr("VX_REPO", "/repo")
	verifDir = envOr("VX_VERIF", "/verif")
	goRoot   = envOr("VX_GOROOT", "/opt/veriftools/go1.26.8")
)

func envOr(k, d string) string {
	if v := os.Getenv(k); v != "" {
		return v
	}
	return d
}

func goEnv() []string {
	env := []string{}
	for _, e := range os.Environ() {
		if strings.HasPrefix(e, "PATH=") || strings.HasPrefix(e, "GOTOOLCHAIN=") || strings.HasPrefix(e, "GOFLAGS=") || strings.HasPrefix(e, "GOPROXY=") || strings.HasPrefix(e, "GOSUMDB=") {
			continue
		}
		env = append(env, e)
	}
	env = append(env, "PATH="+goRoot+"/bin:"+os.Getenv("PATH"), "GOTOOLCHAIN=local", "GOFLAGS=-mod=mod", "GOPROXY=off", "GONOSUMDB=*", "GONOSUMCHECK=1", "GOFLAGS=-mod=mod")
	return env
}

// harnessSet describes the harness files to inject.
type harnessSet struct {
	scratch string
	overlay map[string]string // virtual /repo path -> real file
	pkgDirs []string          // repo-relative package dirs with harnesses
	funcs   map[string]string // harness func name -> pkg dir
	modfile string
}

var harnessFuncRe = regexp.MustCompile(`(?m)^func (VX_C\d+_\w+)\(\)`)
var pkgClauseRe = regexp.MustCompile(`(?m)^package (\w+)`)

func prepareHarness(prop string, extraDirs []string) (*harnessSet, error) {
	hs := &harnessSet{overlay: map[string]string{}, funcs: map[string]string{}}
	scratch, err := os.MkdirTemp("", "vx-")
	if err != nil {
		return nil, err
	}
	hs.scratch = scratch
	// scratch copy of go.mod / go.sum so that /repo is never rewritten
	for _, f := range []string{"go.mod", "go.sum"} {
		data, err := os.ReadFile(filepath.Join(repoDir, f))
		if err != nil {
			return nil, err
		}
		if err := os.WriteFile(filepath.Join(scratch, f), data, 0644); err != nil {
			return nil, err
		}
	}
	hs.modfile = filepath.Join(scratch, "go.mod")
	tmpl, err := os.ReadFile(filepath.Join(verifDir, "harness", "vxapi.go.tmpl"))
	if err != nil {
		return nil, err
	}
	root := filepath.Join(verifDir, "harness")
	dirs := map[string]bool{}
	err = filepath.Walk(root, func(p string, info os.FileInfo, err error) error {
		if err != nil || info.IsDir() || !strings.HasSuffix(p, ".go") {
			return err
		}
		data, err := os.ReadFile(p)
		if err != nil {
			return err
		}
		rel, _ := filepath.Rel(root, filepath.Dir(p))
		use := false
		for _, m := range harnessFuncRe.FindAllStringSubmatch(string(data), -1) {
			if prop == "" || strings.HasPrefix(m[1], "VX_"+prop+"_") {
				use = true
			}
		}
		for _, d := range extraDirs {
			if d == rel {
				use = true
			}
		}
		if use {
			dirs[rel] = true
		}
		return nil
	})
	if err != nil {
		return nil, err
	}
	for d := range dirs {
		hs.pkgDirs = append(hs.pkgDirs, d)
	}
	sort.Strings(hs.pkgDirs)
	for _, d := range hs.pkgDirs {
		// all harness files of that package are injected (helpers are shared)
		files, _ := filepath.Glob(filepath.Join(root, d, "*.go"))
		pkgName := ""
		for _, f := range files {
			data, _ := os.ReadFile(f)
			if m := pkgClauseRe.FindSubmatch(data); m != nil {
				pkgName = string(m[1])
			}
			hs.overlay[filepath.Join(repoDir, d, filepath.Base(f))] = f
			for _, m := range harnessFuncRe.FindAllStringSubmatch(string(data), -1) {
				hs.funcs[m[1]] = d
			}
		}
		if pkgName == "" {
			return nil, fmt.Errorf("no package clause in harness dir %s", d)
		}
		api := strings.Replace(string(tmpl), "PKGNAME", pkgName, 1)
		apiPath := filepath.Join(scratch, strings.ReplaceAll(d, "/", "__")+"_zz_vx_api.go")
		if err := os.WriteFile(apiPath, []byte(api), 0644); err != nil {
			return nil, err
		}
		hs.overlay[filepath.Join(repoDir, d, "zz_vx_api.go")] = apiPath
	}
	return hs, nil
}

func (hs *harnessSet) cleanup() {
	if hs != nil && hs.scratch != "" {
		os.RemoveAll(hs.scratch)
	}
}

func loadProgram(hs *harnessSet) (*Program, error) {
	overlay := map[string][]byte{}
	for virt, real := range hs.overlay {
		data, err := os.ReadFile(real)
		if err != nil {
			return nil, err
		}
		overlay[virt] = data
	}
	var patterns []string
	for _, d := range hs.pkgDirs {
		patterns = append(patterns, "./"+d)
	}
	cfg := &packages.Config{
		Mode:       packages.LoadAllSyntax,
		Dir:        repoDir,
		Env:        goEnv(),
		BuildFlags: []string{"-tags=verif", "-modfile=" + hs.modfile},
		Overlay:    overlay,
	}
	pkgs, err := packages.Load(cfg, patterns...)
	if err != nil {
		return nil, err
	}
	nerr := 0
	packages.Visit(pkgs, nil, func(p *packages.Package) {
		for _, e := range p.Errors {
			if nerr < 20 {
				fmt.Fprintf(os.Stderr, "load error: %s\n", e)
			}
			nerr++
		}
	})
	if nerr > 0 {
		return nil, fmt.Errorf("%d package load errors (the tree does not type-check with the harness)", nerr)
	}
	prog, spkgs := ssautil.AllPackages(pkgs, ssa.InstantiateGenerics)
	prog.Build()
	p := &Program{Prog: prog, infos: map[*ssa.Function]*fnInfo{}, Fset: prog.Fset}
	packages.Visit(pkgs, nil, func(lp *packages.Package) { p.Loaded = append(p.Loaded, lp) })
	for _, sp := range spkgs {
		if sp != nil {
			p.Pkgs = append(p.Pkgs, sp)
		}
	}
	return p, nil
}

func (p *Program) findHarness(name string) *ssa.Function {
	for _, pkg := range p.Pkgs {
		if f := pkg.Func(name); f != nil {
			return f
		}
	}
	return nil
}

// ---------- run

type runConfig struct {
	prop     string
	tier     string
	only     string
	workers  int
	timeout  time.Duration
	solver   string
	solverMs int
	verbose  bool
	noReplay bool
	splitOnly string
}

func main() {
	// exec.LookPath uses this process's PATH: put the Go toolchain that satisfies /repo/go.mod first
	os.Setenv("PATH", goRoot+"/bin:"+os.Getenv("PATH"))
	os.Setenv("GOTOOLCHAIN", "local")
	if len(os.Args) < 2 {
		fmt.Fprintln(os.Stderr, "usage: vx run|replay|selftest ...")
		os.Exit(2)
	}
	switch os.Args[1] {
	case "run":
		code := cmdRun(os.Args[2:])
		pprof.StopCPUProfile()
		os.Exit(code)
	case "replay":
		os.Exit(cmdReplay(os.Args[2:]))
	case "selftest":
		os.Exit(cmdSelftest(os.Args[2:]))
	default:
		fmt.Fprintln(os.Stderr, "unknown command", os.Args[1])
		os.Exit(2)
	}
}

func cmdRun(args []string) int {
	fs := flag.NewFlagSet("run", flag.ExitOnError)
	var rc runConfig
	fs.StringVar(&rc.prop, "prop", "", "property id (C06)")
	fs.StringVar(&rc.tier, "tier", envOr("VERIF_TIER", "quick"), "quick|thorough")
	fs.StringVar(&rc.only, "only", "", "regexp restricting harness names")
	fs.StringVar(&rc.splitOnly, "split", "", "name=value: explore only the jobs with this vxSplit value (debugging; recorded in the evidence)")
	fs.IntVar(&rc.workers, "workers", 16, "parallel workers")
	fs.DurationVar(&rc.timeout, "timeout", 0, "wall budget for exploration (0 = tier default)")
	fs.StringVar(&rc.solver, "solver", "z3", "z3|z3-new|cvc5")
	fs.IntVar(&rc.solverMs, "solver-ms", 20000, "per-query solver timeout in ms")
	fs.BoolVar(&rc.verbose, "v", false, "verbose")
	fs.BoolVar(&rc.noReplay, "no-replay", false, "skip native replay (debugging only; never prints VIOLATION)")
	fs.Parse(args)
	if rc.prop == "" {
		fmt.Fprintln(os.Stderr, "--prop required")
		return 2
	}
	if p := os.Getenv("VX_CPUPROFILE"); p != "" {
		if f, err := os.Create(p); err == nil {
			pprof.StartCPUProfile(f)
			defer pprof.StopCPUProfile()
		}
	}
	if rc.timeout == 0 {
		if rc.tier == "thorough" {
			rc.timeout = 40 * time.Minute
		} else {
			rc.timeout = 8 * time.Minute
		}
	}
	return runProperty(&rc)
}

func tierNum(t string) int {
	if t == "thorough" {
		return 1
	}
	return 0
}

func seedOf() int {
	n, _ := strconv.Atoi(os.Getenv("VERIF_SEED"))
	return n
}

func writeJSON(path string, v interface{}) error {
	data, err := json.MarshalIndent(v, "", " ")
	if err != nil {
		return err
	}
	os.MkdirAll(filepath.Dir(path), 0755)
	return os.WriteFile(path, append(data, '\n'), 0644)
}

func runCmd(dir string, env []string, timeout time.Duration, name string, args ...string) (string, error) {
	cmd := exec.Command(name, args...)
	cmd.Dir = dir
	cmd.Env = env
	done := make(chan struct{})
	var out []byte
	var err error
	go func() {
		out, err = cmd.CombinedOutput()
		close(done)
	}()
	select {
	case <-done:
	case <-time.After(timeout):
		if cmd.Process != nil {
			cmd.Process.Kill()
		}
		<-done
		return string(out), fmt.Errorf("timeout after %s", timeout)
	}
	return string(out), err
}

var _ = types.Typ
