package main

// Package-level variable initialisers are evaluated once per run by interpreting
// the synthesized package init functions concretely (explicit func init() bodies
// are skipped: class singletons etc. become opaque distinct objects, see defaultGlobal).

import (
	"fmt"
	"go/types"
	"os"
	"strings"
	"time"

	"golang.org/x/tools/go/ssa"
)

var initAllow = []string{
	"github.com/elk-language/elk",
	"unicode/utf8",
	"unicode/utf16",
	"strconv",
	"math/bits",
	"unicode",
	"errors",
	"io",
	"github.com/cespare/xxhash",
	"strings",
	"github.com/rivo/uniseg",
	"bytes",
	"sort",
	"slices",
	"math",
}

// packages whose explicit init() functions are executed too
var initExplicit = []string{}

func wantInit(path string) bool {
	for _, p := range initAllow {
		if path == p || strings.HasPrefix(path, p+"/") {
			return true
		}
	}
	return false
}

func buildSnapshot(P *Program, verbose bool, intMode bool) *Snapshot {
	t0 := time.Now()
	ts := NewTermStore()
	ex := NewExec(P, ts, nil)
	ex.initMode = true
	ex.intMode = intMode
	ex.maxSteps = 200_000_000
	ex.harness = "<init>"
	// topological order over imports
	var order []*ssa.Package
	seen := map[*types.Package]bool{}
	var visit func(tp *types.Package)
	visit = func(tp *types.Package) {
		if seen[tp] {
			return
		}
		seen[tp] = true
		for _, imp := range tp.Imports() {
			visit(imp)
		}
		if sp := P.Prog.Package(tp); sp != nil {
			order = append(order, sp)
		}
	}
	for _, sp := range P.Prog.AllPackages() {
		visit(sp.Pkg)
	}
	nOpaque := 0
	for _, sp := range order {
		if !wantInit(sp.Pkg.Path()) {
			continue
		}
		initFn := sp.Func("init")
		if initFn == nil || len(initFn.Blocks) == 0 {
			continue
		}
		nOpaque += ex.runInit(initFn)
	}
	snap := &Snapshot{mem: ex.memLayers[0], globals: ex.globals, nextObj: ex.nextObj}
	if verbose {
		fmt.Fprintf(os.Stderr, "init snapshot: %d objects, %d globals, %d opaque results, %.2fs\n", len(snap.mem), len(snap.globals), nOpaque, time.Since(t0).Seconds())
	}
	return snap
}

// runInit interprets a synthesized package init function; every instruction that the
// engine cannot evaluate yields an Opaque value instead of aborting.
func (ex *Exec) runInit(fn *ssa.Function) (nOpaque int) {
	info := ex.P.info(fn)
	fr := &Frame{fn: fn, info: info, env: make([]Value, info.n)}
	ex.cur = fr
	defer func() { ex.cur = nil }()
	b := fn.Blocks[0]
	var prev *ssa.BasicBlock
	for steps := 0; steps < 1_000_000; steps++ {
		var next *ssa.BasicBlock
		finished := false
		// phis
		nphi := 0
		for _, ins := range b.Instrs {
			phi, ok := ins.(*ssa.Phi)
			if !ok {
				break
			}
			nphi++
			for i, p := range b.Preds {
				if p == prev {
					ex.set(fr, phi, ex.get(fr, phi.Edges[i]))
				}
			}
		}
		for _, ins := range b.Instrs[nphi:] {
			switch x := ins.(type) {
			case *ssa.If:
				c, ok := ex.safeGet(fr, x.Cond).(*Term)
				if ok && c.Const && c.U == 1 {
					next = b.Succs[0]
				} else {
					next = b.Succs[1]
				}
			case *ssa.Jump:
				next = b.Succs[0]
			case *ssa.Return:
				finished = true
			case *ssa.Panic:
				finished = true
			default:
				if call, ok := ins.(*ssa.Call); ok {
					if cf, ok := call.Call.Value.(*ssa.Function); ok {
						name := cf.Name()
						if name == "init" && cf.Pkg != fn.Pkg {
							continue // dependency init: handled by the topological order
						}
						if strings.HasPrefix(name, "init#") {
							continue // explicit func init(): skipped (see file comment)
						}
					}
				}
				if !ex.initInstr(fr, ins) {
					nOpaque++
				}
			}
			if next != nil || finished {
				break
			}
		}
		if finished || next == nil {
			return
		}
		prev, b = b, next
	}
	return
}

func (ex *Exec) safeGet(fr *Frame, v ssa.Value) (r Value) {
	defer func() {
		if e := recover(); e != nil {
			r = Opaque{"unreadable"}
		}
	}()
	return ex.get(fr, v)
}

func (ex *Exec) initInstr(fr *Frame, ins ssa.Instruction) (ok bool) {
	savedDepth := ex.depth
	savedCur := ex.cur
	defer func() {
		if r := recover(); r != nil {
			ex.depth = savedDepth
			ex.cur = savedCur
			ex.specDepth = 0
			ex.memLayers = ex.memLayers[:1]
			why := ""
			switch x := r.(type) {
			case *pathAbort:
				why = x.Kind + ": " + x.Msg
			case *GoPanic:
				why = "panic: " + x.Msg
			case *specAbort:
				why = "spec: " + x.Why
			default:
				why = fmt.Sprint(r)
			}
			if os.Getenv("VX_INITDEBUG") != "" {
				fmt.Fprintf(os.Stderr, "init: %s: %s -> opaque (%s)\n", ex.posOf(ins), ins, why)
			}
			if v, isVal := ins.(ssa.Value); isVal {
				ex.set(fr, v, Opaque{Why: "init: " + why})
			}
			if st, isStore := ins.(*ssa.Store); isStore {
				// the stored value was unreadable: poison the destination
				func() {
					defer func() { recover() }()
					if p, isP := ex.get(fr, st.Addr).(Pointer); isP && p.Obj != nil {
						ex.store(p, Opaque{Why: "init: " + why}, "init")
					}
				}()
			}
			ok = false
		}
	}()
	ex.exec(fr, ins)
	return true
}
