package main

// Goroutines as coroutines inside one executor state (DESIGN 3.6). A modelled thread runs on
// its own host goroutine, but only one of them runs at a time: control is handed over at
// *visible operations* (sync primitives, channel operations, thread start/exit, join). At every
// visible operation the next thread to run is a decision among the threads whose pending
// operation is enabled - a fork of the path like any other symbolic branch, so the schedule is
// part of the decision prefix and is re-executed deterministically.

import (
	"fmt"
	"go/types"
	"strings"

	"golang.org/x/tools/go/ssa"
)

type vthread struct {
	id      int
	resume  chan struct{}
	exited  chan struct{}
	done    bool
	enabled func() bool // pending visible operation can complete (nil: yes)
	what    string
	// saved interpreter context
	cur            *Frame
	depth          int
	pendingDeferOf *Frame
	pend           *pendingChanOp
}

type threadKilled struct{}

type Sched struct {
	threads  []*vthread
	cur      int
	abort    interface{}
	schedule []int
	visible  int
	killed   bool
	preemptBound int
	spinBound    int
	preemptions  int
}

const maxVisibleOps = 400

func (ex *Exec) sched() *Sched {
	if ex.threads == nil {
		ex.threads = &Sched{threads: []*vthread{{id: 0, resume: make(chan struct{}, 1)}}}
	}
	return ex.threads
}

func (ex *Exec) curThread() int {
	if ex.threads == nil {
		return 0
	}
	return ex.threads.cur
}

// decideFree: an unconstrained n-way choice (no solver call).
func (ex *Exec) decideFree(n int, what string) int {
	if ex.specDepth > 0 {
		panic(&specAbort{"fork needed: " + what})
	}
	if ex.decIdx < len(ex.prefix) {
		i := ex.prefix[ex.decIdx]
		if i < 0 || i >= n {
			ex.unsupported("decision trace misaligned at %s", what)
		}
		ex.decIdx++
		ex.trace = append(ex.trace, i)
		return i
	}
	for alt := 1; alt < n; alt++ {
		item := make([]int, len(ex.trace)+1)
		copy(item, ex.trace)
		item[len(ex.trace)] = alt
		ex.pending = append(ex.pending, item)
	}
	ex.decIdx++
	ex.trace = append(ex.trace, 0)
	return 0
}

// visibleOp is called by the running thread right before a visible operation; it returns when
// this thread has been chosen to perform the operation (which is then enabled).
func (ex *Exec) visibleOp(what string, enabled func() bool) {
	if ex.specDepth > 0 {
		panic(&specAbort{"visible operation: " + what})
	}
	if ex.threads == nil {
		if enabled != nil && !enabled() {
			ex.deadlock([]string{"main: " + what})
		}
		return
	}
	s := ex.threads
	me := s.threads[s.cur]
	me.enabled, me.what = enabled, what
	ex.reschedule(me)
	me.enabled, me.what = nil, ""
}

func (ex *Exec) deadlock(blocked []string) {
	msg := "all goroutines are asleep - deadlock: " + strings.Join(blocked, "; ")
	site := ""
	if ex.cur != nil {
		site = ex.cur.fn.String()
	}
	ex.recordViolation("deadlock", "no-deadlock", msg, site, nil)
	panic(&pathAbort{Kind: "done", Msg: "deadlock"})
}

func (ex *Exec) reschedule(me *vthread) {
	s := ex.threads
	var cand []*vthread
	var blocked []string
	for _, t := range s.threads {
		if t.done {
			continue
		}
		if t.enabled == nil || t.enabled() {
			cand = append(cand, t)
		} else {
			blocked = append(blocked, fmt.Sprintf("thread %d: %s", t.id, t.what))
		}
	}
	if len(cand) == 0 {
		ex.deadlock(blocked)
	}
	s.visible++
	if s.spinBound > 0 && s.visible > s.spinBound {
		// fairness assumption of the harness: schedules that let a thread spin this long while
		// another enabled thread never runs are not considered
		panic(&pathAbort{Kind: "assume-false", Msg: "unfair schedule (spin bound)"})
	}
	if s.visible > maxVisibleOps {
		panic(&pathAbort{Kind: "budget", Msg: fmt.Sprintf("more than %d visible operations on one path", maxVisibleOps)})
	}
	// preemption bounding (when the harness asks for it): once the budget is spent a thread
	// whose own operation is enabled keeps running
	meEnabled := false
	for _, t := range cand {
		if t == me {
			meEnabled = true
		}
	}
	if s.preemptBound > 0 && meEnabled && s.preemptions >= s.preemptBound {
		cand = []*vthread{me}
	}
	i := 0
	if len(cand) > 1 {
		i = ex.decideFree(len(cand), "schedule")
	}
	next := cand[i]
	if meEnabled && next != me {
		s.preemptions++
	}
	s.schedule = append(s.schedule, next.id)
	if next == me {
		return
	}
	ex.switchTo(me, next)
}

func (ex *Exec) switchTo(me, next *vthread) {
	s := ex.threads
	me.cur, me.depth, me.pendingDeferOf = ex.cur, ex.depth, ex.pendingDeferOf
	s.cur = next.id
	ex.cur, ex.depth, ex.pendingDeferOf = next.cur, next.depth, next.pendingDeferOf
	next.resume <- struct{}{}
	if me.done {
		return
	}
	ex.park(me)
}

func (ex *Exec) park(me *vthread) {
	s := ex.threads
	<-me.resume
	if s.killed {
		panic(&threadKilled{})
	}
	if me.id == 0 && s.abort != nil {
		r := s.abort
		s.abort = nil
		panic(r)
	}
}

// goStmt starts a modelled thread; it becomes runnable and is scheduled at a later visible operation.
func (ex *Exec) goStmt(fr *Frame, x *ssa.Go) {
	fv, args := ex.prepareCall(fr, &x.Call, x)
	ex.startThread(fr, fv, args, x)
}

func (ex *Exec) startThread(fr *Frame, fv Value, args []Value, site ssa.Instruction) {
	if ex.specDepth > 0 {
		panic(&specAbort{"go statement"})
	}
	if ex.initMode {
		ex.unsupported("go statement during package initialisation")
	}
	s := ex.sched()
	if len(s.threads) >= 6 {
		ex.unsupported("more than 6 goroutines")
	}
	t := &vthread{id: len(s.threads), resume: make(chan struct{}, 1), exited: make(chan struct{})}
	s.threads = append(s.threads, t)
	go func() {
		defer close(t.exited)
		<-t.resume
		if s.killed {
			return
		}
		defer func() {
			r := recover()
			if _, ok := r.(*threadKilled); ok {
				return
			}
			t.done = true
			if r == nil {
				// normal end: hand over (may itself detect a deadlock)
				func() {
					defer func() {
						if r2 := recover(); r2 != nil {
							if _, ok := r2.(*threadKilled); !ok {
								r = r2
							}
						}
					}()
					ex.reschedule(t)
				}()
				if r == nil {
					return
				}
			}
			if gp, ok := r.(*GoPanic); ok && !gp.Fatal {
				// an uncaught panic in any goroutine ends the process
				r = &GoPanic{Val: gp.Val, Msg: "panic in goroutine: " + gp.Msg, Runtime: gp.Runtime, Fatal: true, Site: gp.Site, Stack: gp.Stack}
			}
			s.abort = r
			main := s.threads[0]
			s.cur = 0
			ex.cur, ex.depth, ex.pendingDeferOf = main.cur, main.depth, main.pendingDeferOf
			main.resume <- struct{}{}
		}()
		ex.callValue(nil, fv, args, site)
	}()
}

// killThreads ends every parked host goroutine of this path (called by the driver).
func (ex *Exec) killThreads() {
	s := ex.threads
	if s == nil {
		return
	}
	s.killed = true
	for _, t := range s.threads[1:] {
		select {
		case <-t.exited:
			continue
		default:
		}
		select {
		case t.resume <- struct{}{}:
		default:
		}
		<-t.exited
	}
}

// ---------- lock state (side table keyed by the address of the primitive)

type lockState struct {
	writer  int // thread id holding the write lock, -1 none
	readers map[int]int
	wg      int  // WaitGroup counter
	onceRun bool // Once completed
}

func lockKey(p Pointer) string {
	var sb strings.Builder
	fmt.Fprintf(&sb, "%d", p.Obj.ID)
	for _, e := range p.Path {
		fmt.Fprintf(&sb, ".%d", e.Idx)
	}
	return sb.String()
}

func (ex *Exec) lockOf(v Value, site ssa.Instruction) *lockState {
	p, ok := v.(Pointer)
	if !ok || p.Obj == nil {
		ex.goPanicRuntime("invalid memory address or nil pointer dereference (nil sync primitive)", ex.posOf(site))
	}
	if ex.locks == nil {
		ex.locks = map[string]*lockState{}
	}
	k := lockKey(p)
	ls := ex.locks[k]
	if ls == nil {
		ls = &lockState{writer: -1, readers: map[int]int{}}
		ex.locks[k] = ls
	}
	return ls
}

func (ex *Exec) syncFatal(msg string, site ssa.Instruction) {
	panic(&GoPanic{Val: ex.runtimeErrorValue(msg), Msg: "fatal error: " + msg, Runtime: true, Fatal: true, Site: ex.posOf(site), Stack: ex.stackStrings()})
}

func nReaders(ls *lockState) int {
	n := 0
	for _, c := range ls.readers {
		n += c
	}
	return n
}

func init() {
	type H = intrinsicFn
	lock := func(ex *Exec, fr *Frame, fn *ssa.Function, a []Value, site ssa.Instruction) Value {
		ls := ex.lockOf(a[0], site)
		ex.visibleOp("Lock at "+ex.posOf(site), func() bool { return ls.writer < 0 && nReaders(ls) == 0 })
		ls.writer = ex.curThread()
		return nil
	}
	unlock := func(ex *Exec, fr *Frame, fn *ssa.Function, a []Value, site ssa.Instruction) Value {
		ls := ex.lockOf(a[0], site)
		ex.visibleOp("Unlock at "+ex.posOf(site), nil)
		if ls.writer < 0 {
			ex.syncFatal("sync: unlock of unlocked mutex", site)
		}
		ls.writer = -1
		return nil
	}
	tryLock := func(ex *Exec, fr *Frame, fn *ssa.Function, a []Value, site ssa.Instruction) Value {
		ls := ex.lockOf(a[0], site)
		ex.visibleOp("TryLock at "+ex.posOf(site), nil)
		if ls.writer < 0 && nReaders(ls) == 0 {
			ls.writer = ex.curThread()
			return ex.ts.True()
		}
		return ex.ts.False()
	}
	rlock := func(ex *Exec, fr *Frame, fn *ssa.Function, a []Value, site ssa.Instruction) Value {
		ls := ex.lockOf(a[0], site)
		ex.visibleOp("RLock at "+ex.posOf(site), func() bool { return ls.writer < 0 })
		ls.readers[ex.curThread()]++
		return nil
	}
	runlock := func(ex *Exec, fr *Frame, fn *ssa.Function, a []Value, site ssa.Instruction) Value {
		ls := ex.lockOf(a[0], site)
		ex.visibleOp("RUnlock at "+ex.posOf(site), nil)
		if nReaders(ls) == 0 {
			ex.syncFatal("sync: RUnlock of unlocked RWMutex", site)
		}
		// any reader may release (Go does not track ownership)
		t := ex.curThread()
		if ls.readers[t] > 0 {
			ls.readers[t]--
		} else {
			for k, c := range ls.readers {
				if c > 0 {
					ls.readers[k]--
					break
				}
			}
		}
		return nil
	}
	tryRLock := func(ex *Exec, fr *Frame, fn *ssa.Function, a []Value, site ssa.Instruction) Value {
		ls := ex.lockOf(a[0], site)
		ex.visibleOp("TryRLock at "+ex.posOf(site), nil)
		if ls.writer < 0 {
			ls.readers[ex.curThread()]++
			return ex.ts.True()
		}
		return ex.ts.False()
	}
	registerIntrinsic("(*sync.Mutex).Lock", lock)
	registerIntrinsic("(*sync.Mutex).Unlock", unlock)
	registerIntrinsic("(*sync.Mutex).TryLock", tryLock)
	registerIntrinsic("(*sync.RWMutex).Lock", lock)
	registerIntrinsic("(*sync.RWMutex).Unlock", unlock)
	registerIntrinsic("(*sync.RWMutex).TryLock", tryLock)
	registerIntrinsic("(*sync.RWMutex).RLock", rlock)
	registerIntrinsic("(*sync.RWMutex).RUnlock", runlock)
	registerIntrinsic("(*sync.RWMutex).TryRLock", tryRLock)

	registerIntrinsic("(*sync.WaitGroup).Add", func(ex *Exec, fr *Frame, fn *ssa.Function, a []Value, site ssa.Instruction) Value {
		ls := ex.lockOf(a[0], site)
		d, ok := a[1].(*Term)
		if !ok || !d.Const {
			ex.unsupported("WaitGroup.Add with a symbolic delta")
		}
		ex.visibleOp("WaitGroup.Add at "+ex.posOf(site), nil)
		ls.wg += int(d.BigS().Int64())
		if ls.wg < 0 {
			panic(&GoPanic{Val: ex.runtimeErrorValue("sync: negative WaitGroup counter"), Msg: "sync: negative WaitGroup counter", Site: ex.posOf(site), Stack: ex.stackStrings()})
		}
		return nil
	})
	registerIntrinsic("(*sync.WaitGroup).Done", func(ex *Exec, fr *Frame, fn *ssa.Function, a []Value, site ssa.Instruction) Value {
		ls := ex.lockOf(a[0], site)
		ex.visibleOp("WaitGroup.Done at "+ex.posOf(site), nil)
		ls.wg--
		if ls.wg < 0 {
			panic(&GoPanic{Val: ex.runtimeErrorValue("sync: negative WaitGroup counter"), Msg: "sync: negative WaitGroup counter", Site: ex.posOf(site), Stack: ex.stackStrings()})
		}
		return nil
	})
	registerIntrinsic("(*sync.WaitGroup).Wait", func(ex *Exec, fr *Frame, fn *ssa.Function, a []Value, site ssa.Instruction) Value {
		ls := ex.lockOf(a[0], site)
		ex.visibleOp("WaitGroup.Wait at "+ex.posOf(site), func() bool { return ls.wg == 0 })
		return nil
	})
	registerIntrinsic("(*sync.Once).Do", func(ex *Exec, fr *Frame, fn *ssa.Function, a []Value, site ssa.Instruction) Value {
		ls := ex.lockOf(a[0], site)
		// Do holds the Once's mutex while f runs: a second caller waits until the first returns
		ex.visibleOp("Once.Do at "+ex.posOf(site), func() bool { return ls.writer < 0 })
		if ls.onceRun {
			return nil
		}
		ls.writer = ex.curThread()
		func() {
			defer func() {
				ls.onceRun = true
				ls.writer = -1
			}()
			ex.callValue(fr, a[1], nil, site)
		}()
		return nil
	})

	// harness API
	vxAPI["vxGo"] = func(ex *Exec, fr *Frame, fn *ssa.Function, args []Value, site ssa.Instruction) Value {
		ex.startThread(fr, args[0], nil, site)
		return nil
	}
	vxAPI["vxJoin"] = func(ex *Exec, fr *Frame, fn *ssa.Function, args []Value, site ssa.Instruction) Value {
		if ex.threads == nil {
			return nil
		}
		s := ex.threads
		ex.visibleOp("join", func() bool {
			for _, t := range s.threads[1:] {
				if !t.done {
					return false
				}
			}
			return true
		})
		return nil
	}
	// vxPreemptionBound(k): explore the schedules with at most k preemptions (switches away from a
	// thread that could have continued); switches at blocking points are always free. 0 = unbounded.
	vxAPI["vxPreemptionBound"] = func(ex *Exec, fr *Frame, fn *ssa.Function, args []Value, site ssa.Instruction) Value {
		k := argInt(ex, args[0])
		ex.sched().preemptBound = k
		if k > 0 {
			ex.assumptions[fmt.Sprintf("schedules with at most %d preemptions (context switches at blocking points are unrestricted)", k)] = true
		}
		return nil
	}
	// vxSpinBound(n): fairness - a path with more than n visible operations is an unfair schedule
	vxAPI["vxSpinBound"] = func(ex *Exec, fr *Frame, fn *ssa.Function, args []Value, site ssa.Instruction) Value {
		n := argInt(ex, args[0])
		ex.sched().spinBound = n
		ex.assumptions[fmt.Sprintf("fair schedules: at most %d visible operations per path (a polling loop is not allowed to starve an enabled thread longer)", n)] = true
		return nil
	}
	vxAPI["vxThreadID"] = func(ex *Exec, fr *Frame, fn *ssa.Function, args []Value, site ssa.Instruction) Value {
		return ex.goInt(int64(ex.curThread()))
	}
}

// ---------- lock discipline (lockset check on objects the harness declares guarded)

func (ex *Exec) raceCheck(o *Object, write bool, site string) {
	if ex.guards == nil || ex.threads == nil || o == nil {
		return
	}
	k, ok := ex.guards[o]
	if !ok {
		return
	}
	live := 0
	for _, t := range ex.threads.threads {
		if !t.done && t.what != "join" {
			live++
		}
	}
	if live < 2 {
		return
	}
	cur := ex.curThread()
	ls := ex.locks[k]
	if ls != nil && (ls.writer == cur || (!write && ls.readers[cur] > 0)) {
		return
	}
	what := "read"
	if write {
		what = "write"
	}
	fnName := ""
	if ex.cur != nil {
		fnName = ex.cur.fn.String()
		if site == "" {
			site = fnName
		}
	}
	key := what + "@" + site
	if ex.raceSeen == nil {
		ex.raceSeen = map[string]bool{}
	}
	if ex.raceSeen[key] {
		return
	}
	ex.raceSeen[key] = true
	ex.recordViolation("race", "lock-discipline", fmt.Sprintf("%s of lock-guarded shared state while other threads run and the lock is not held (in %s)", what, fnName), site, nil)
}

func init() {
	// vxGuardedBy(p, mu): the object p points to, and the maps and slice arrays its fields
	// refer to at this moment, may only be accessed with mu held (write mode for stores)
	vxAPI["vxGuardedBy"] = func(ex *Exec, fr *Frame, fn *ssa.Function, args []Value, site ssa.Instruction) Value {
		var p Pointer
		switch x := args[0].(type) {
		case Pointer:
			p = x
		case IfaceV:
			if q, ok := x.V.(Pointer); ok {
				p = q
			}
		}
		mu, ok := args[1].(Pointer)
		if iv, isI := args[1].(IfaceV); isI {
			mu, ok = iv.V.(Pointer)
		}
		if p.Obj == nil || !ok || mu.Obj == nil {
			ex.unsupported("vxGuardedBy: need two non-nil pointers")
		}
		if ex.guards == nil {
			ex.guards = map[*Object]string{}
		}
		k := lockKey(mu)
		ex.guards[p.Obj] = k
		if root, ok := ex.memGet(p.Obj); ok {
			if st, ok := ex.loadPath(root, p.Path).(*StructV); ok {
				for _, f := range st.Fields {
					switch v := f.(type) {
					case MapV:
						if v.Obj != nil {
							ex.guards[v.Obj] = k
						}
					case SliceV:
						if v.Arr.Obj != nil {
							ex.guards[v.Arr.Obj] = k
						}
					}
				}
			}
		}
		return nil
	}
}

// ---------- channels and select

// ChanData is the content of a channel object. Unbuffered channels (Cap == 0) hand values over
// by rendezvous between a parked operation and the operation that is being performed.
type ChanData struct {
	Buf    []Value
	Cap    int
	Closed bool
	Elem   types.Type
}

type chanCase struct {
	send bool
	ch   *Object // nil: nil channel (never ready)
	val  Value
}

type pendingChanOp struct {
	cases    []chanCase
	blocking bool
	done     int // index of the case a partner completed, -1 none
	recv     Value
	ok       bool
}

func (ex *Exec) chanData(o *Object) *ChanData {
	v, _ := ex.memGet(o)
	cd, _ := v.(*ChanData)
	if cd == nil {
		ex.unsupported("channel object without data")
	}
	return cd
}

func (ex *Exec) makeChan(fr *Frame, x *ssa.MakeChan) Value {
	size := ex.get(fr, x.Size)
	st, ok := size.(*Term)
	if !ok || !st.Const {
		ex.unsupported("make(chan) with a symbolic capacity")
	}
	n := int(st.BigS().Int64())
	if n < 0 {
		ex.goPanicRuntime("makechan: size out of range", ex.posOf(x))
	}
	elem := x.Type().Underlying().(*types.Chan).Elem()
	o := ex.newObjectWith(x.Type(), ex.posOf(x), &ChanData{Cap: n, Elem: elem})
	return ChanV{Obj: o}
}

func (ex *Exec) otherPending(me int, f func(t *vthread, op *pendingChanOp) bool) {
	if ex.threads == nil {
		return
	}
	for _, t := range ex.threads.threads {
		if t.id == me || t.done || t.pend == nil || t.pend.done >= 0 {
			continue
		}
		if f(t, t.pend) {
			return
		}
	}
}

// partner: a parked, unmatched operation of another thread with a case of the opposite direction on ch
func (ex *Exec) chanPartners(me int, ch *Object, wantSend bool) (ts []*vthread, idx []int) {
	ex.otherPending(me, func(t *vthread, op *pendingChanOp) bool {
		for i, c := range op.cases {
			if c.ch == ch && c.send == wantSend {
				ts = append(ts, t)
				idx = append(idx, i)
				break
			}
		}
		return false
	})
	return
}

func (ex *Exec) caseReady(me int, c chanCase) bool {
	if c.ch == nil {
		return false
	}
	cd := ex.chanData(c.ch)
	if c.send {
		if cd.Closed {
			return true // panics
		}
		if cd.Cap > 0 {
			return len(cd.Buf) < cd.Cap
		}
		ts, _ := ex.chanPartners(me, c.ch, false)
		return len(ts) > 0
	}
	if len(cd.Buf) > 0 || cd.Closed {
		return true
	}
	if cd.Cap == 0 {
		ts, _ := ex.chanPartners(me, c.ch, true)
		return len(ts) > 0
	}
	return false
}

// chanOp performs a (possibly multi-case) channel operation; returns the chosen case (-1: default),
// and for a receive the value and ok flag.
func (ex *Exec) chanOp(cases []chanCase, blocking bool, site ssa.Instruction, what string) (int, Value, bool) {
	op := &pendingChanOp{cases: cases, blocking: blocking, done: -1}
	me := ex.curThread()
	enabled := func() bool {
		if op.done >= 0 || !blocking {
			return true
		}
		for _, c := range cases {
			if ex.caseReady(me, c) {
				return true
			}
		}
		return false
	}
	if ex.threads != nil {
		ex.threads.threads[me].pend = op
	}
	ex.visibleOp(what+" at "+ex.posOf(site), enabled)
	if ex.threads != nil {
		ex.threads.threads[me].pend = nil
	}
	if op.done >= 0 {
		return op.done, op.recv, op.ok
	}
	var ready []int
	for i, c := range cases {
		if ex.caseReady(me, c) {
			ready = append(ready, i)
		}
	}
	if len(ready) == 0 {
		return -1, nil, false
	}
	k := ready[0]
	if len(ready) > 1 {
		k = ready[ex.decideFree(len(ready), "select among ready cases")]
	}
	c := cases[k]
	cd := ex.chanData(c.ch)
	if c.send {
		if cd.Closed {
			panic(&GoPanic{Val: ex.runtimeErrorValue("send on closed channel"), Msg: "send on closed channel", Runtime: true, Site: ex.posOf(site), Stack: ex.stackStrings()})
		}
		if cd.Cap > 0 {
			nb := append(append([]Value(nil), cd.Buf...), c.val)
			ex.memSet(c.ch, &ChanData{Buf: nb, Cap: cd.Cap, Closed: cd.Closed, Elem: cd.Elem})
			return k, nil, false
		}
		ts, idx := ex.chanPartners(me, c.ch, false)
		p := 0
		if len(ts) > 1 {
			p = ex.decideFree(len(ts), "receiver of an unbuffered send")
		}
		ts[p].pend.done, ts[p].pend.recv, ts[p].pend.ok = idx[p], c.val, true
		return k, nil, false
	}
	if len(cd.Buf) > 0 {
		v := cd.Buf[0]
		ex.memSet(c.ch, &ChanData{Buf: append([]Value(nil), cd.Buf[1:]...), Cap: cd.Cap, Closed: cd.Closed, Elem: cd.Elem})
		return k, v, true
	}
	if cd.Closed {
		return k, ex.zero(cd.Elem), false
	}
	ts, idx := ex.chanPartners(me, c.ch, true)
	p := 0
	if len(ts) > 1 {
		p = ex.decideFree(len(ts), "sender of an unbuffered receive")
	}
	v := ts[p].pend.cases[idx[p]].val
	ts[p].pend.done = idx[p]
	return k, v, true
}

func chanObj(ex *Exec, v Value) *Object {
	switch c := v.(type) {
	case ChanV:
		return c.Obj
	case nil:
		return nil
	}
	ex.unsupported("channel operand %T", v)
	return nil
}

func (ex *Exec) chanSend(fr *Frame, ch, v Value, site ssa.Instruction) {
	ex.chanOp([]chanCase{{send: true, ch: chanObj(ex, ch), val: v}}, true, site, "send")
}

func (ex *Exec) chanRecv(fr *Frame, ch Value, commaOk bool, site ssa.Instruction) Value {
	o := chanObj(ex, ch)
	_, v, ok := ex.chanOp([]chanCase{{ch: o}}, true, site, "receive")
	if commaOk {
		return TupleV{v, ex.ts.Bool(ok)}
	}
	return v
}

func (ex *Exec) chanClose(fr *Frame, ch Value, site ssa.Instruction) {
	o := chanObj(ex, ch)
	ex.visibleOp("close at "+ex.posOf(site), nil)
	if o == nil {
		ex.goPanicRuntime("close of nil channel", ex.posOf(site))
	}
	cd := ex.chanData(o)
	if cd.Closed {
		panic(&GoPanic{Val: ex.runtimeErrorValue("close of closed channel"), Msg: "close of closed channel", Runtime: true, Site: ex.posOf(site), Stack: ex.stackStrings()})
	}
	ex.memSet(o, &ChanData{Buf: cd.Buf, Cap: cd.Cap, Closed: true, Elem: cd.Elem})
}

func (ex *Exec) selectStmt(fr *Frame, x *ssa.Select) Value {
	cases := make([]chanCase, len(x.States))
	for i, st := range x.States {
		cases[i] = chanCase{send: st.Dir == types.SendOnly, ch: chanObj(ex, ex.get(fr, st.Chan))}
		if st.Send != nil {
			cases[i].val = ex.get(fr, st.Send)
		}
	}
	k, v, ok := ex.chanOp(cases, x.Blocking, x, "select")
	res := TupleV{ex.goInt(int64(k)), ex.ts.Bool(ok)}
	for i, st := range x.States {
		if st.Dir != types.RecvOnly {
			continue
		}
		et := st.Chan.Type().Underlying().(*types.Chan).Elem()
		if i == k && v != nil {
			res = append(res, v)
		} else {
			res = append(res, ex.zero(et))
		}
	}
	return res
}

func (ex *Exec) chanLen(c ChanV) *Term {
	if c.Obj == nil {
		return ex.goInt(0)
	}
	return ex.goInt(int64(len(ex.chanData(c.Obj).Buf)))
}

func (ex *Exec) chanCap(c ChanV) *Term {
	if c.Obj == nil {
		return ex.goInt(0)
	}
	return ex.goInt(int64(ex.chanData(c.Obj).Cap))
}

var _ = types.Typ
