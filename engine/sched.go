package main

// Goroutines, channels and sync primitives (M5). Placeholder until the scheduler is built.

import (
	"golang.org/x/tools/go/ssa"
)

type Sched struct{}

func (ex *Exec) goStmt(fr *Frame, x *ssa.Go) { ex.unsupported("go statement (scheduler not built)") }
func (ex *Exec) makeChan(fr *Frame, x *ssa.MakeChan) Value {
	ex.unsupported("make(chan) (scheduler not built)")
	return nil
}
func (ex *Exec) chanSend(fr *Frame, ch, v Value, site ssa.Instruction) {
	ex.unsupported("channel send (scheduler not built)")
}
func (ex *Exec) chanRecv(fr *Frame, ch Value, commaOk bool, site ssa.Instruction) Value {
	ex.unsupported("channel receive (scheduler not built)")
	return nil
}
func (ex *Exec) chanClose(fr *Frame, ch Value, site ssa.Instruction) {
	ex.unsupported("channel close (scheduler not built)")
}
func (ex *Exec) selectStmt(fr *Frame, x *ssa.Select) Value {
	ex.unsupported("select (scheduler not built)")
	return nil
}
func (ex *Exec) chanLen(c ChanV) *Term { ex.unsupported("len(chan)"); return nil }
func (ex *Exec) chanCap(c ChanV) *Term { ex.unsupported("cap(chan)"); return nil }
