package main

// Path-forking symbolic executor over go/ssa (decision-prefix re-execution).

import (
	"fmt"
	"go/constant"
	"go/token"
	"go/types"
	"math/big"
	"os"
	"strings"
	"sync"

	"golang.org/x/tools/go/packages"
	"golang.org/x/tools/go/ssa"
)

// ---------- control-flow signals (Go panics of the engine)

// GoPanic is a panic of the interpreted program.
type GoPanic struct {
	Val     Value  // the value passed to panic()
	Msg     string // rendering for reports
	Runtime bool   // runtime error (index out of range, nil deref, ...)
	Fatal   bool   // unrecoverable (sync fatal error)
	Site    string
	Stack   []string
}

type pathAbort struct {
	Kind string // unsupported | unwind | budget | infeasible | assume-false | done
	Msg  string
}

type specAbort struct{ Why string }

// ---------- program-level shared state

type fnInfo struct {
	index   map[ssa.Value]int
	n       int
	ipdom   map[*ssa.BasicBlock]*ssa.BasicBlock // nil entry => virtual exit
	hasPdom bool
}

type Program struct {
	Prog     *ssa.Program
	Pkgs     []*ssa.Package
	infoMu   sync.Mutex
	infos    map[*ssa.Function]*fnInfo
	noMerge  sync.Map // *ssa.If -> int failures
	typeIDs  []types.Type
	typeIDMu sync.Mutex
	Fset     *token.FileSet
	Loaded   []*packages.Package
	instrMu  sync.Mutex
	instr    map[string]map[string]string
}

func (p *Program) info(fn *ssa.Function) *fnInfo {
	p.infoMu.Lock()
	defer p.infoMu.Unlock()
	if fi, ok := p.infos[fn]; ok {
		return fi
	}
	fi := &fnInfo{index: map[ssa.Value]int{}}
	add := func(v ssa.Value) {
		fi.index[v] = fi.n
		fi.n++
	}
	for _, prm := range fn.Params {
		add(prm)
	}
	for _, fv := range fn.FreeVars {
		add(fv)
	}
	for _, b := range fn.Blocks {
		for _, ins := range b.Instrs {
			if v, ok := ins.(ssa.Value); ok {
				add(v)
			}
		}
	}
	p.infos[fn] = fi
	return fi
}

// typeID gives a stable small integer to a dynamic type (used as the itab word
// of the iface struct that value.Ref/AsReference reinterpret).
func (p *Program) typeID(t types.Type) int {
	p.typeIDMu.Lock()
	defer p.typeIDMu.Unlock()
	for i, u := range p.typeIDs {
		if types.Identical(u, t) {
			return i + 1
		}
	}
	p.typeIDs = append(p.typeIDs, t)
	return len(p.typeIDs)
}

func (p *Program) typeByID(id int) types.Type {
	p.typeIDMu.Lock()
	defer p.typeIDMu.Unlock()
	if id < 1 || id > len(p.typeIDs) {
		return nil
	}
	return p.typeIDs[id-1]
}

const itabBase = uint64(0x7ab0000000000000)

// post-dominators with a virtual exit; ipdom[b]==nil means the virtual exit.
func (p *Program) postdom(fn *ssa.Function) *fnInfo {
	fi := p.info(fn)
	p.infoMu.Lock()
	defer p.infoMu.Unlock()
	if fi.hasPdom {
		return fi
	}
	n := len(fn.Blocks)
	// reverse graph: node n = virtual exit
	succs := func(i int) []int { // successors in the original graph
		b := fn.Blocks[i]
		if len(b.Succs) == 0 {
			return []int{n}
		}
		r := make([]int, len(b.Succs))
		for k, s := range b.Succs {
			r[k] = s.Index
		}
		return r
	}
	// iterative dataflow: pdom sets as bitsets (functions are small enough; run has 600 blocks -> 600x600 bits ok)
	words := (n + 1 + 63) / 64
	full := make([]uint64, words)
	for i := 0; i <= n; i++ {
		full[i/64] |= 1 << uint(i%64)
	}
	pd := make([][]uint64, n+1)
	for i := 0; i < n; i++ {
		pd[i] = append([]uint64(nil), full...)
	}
	pd[n] = make([]uint64, words)
	pd[n][n/64] |= 1 << uint(n%64)
	changed := true
	tmp := make([]uint64, words)
	for changed {
		changed = false
		for i := n - 1; i >= 0; i-- {
			copy(tmp, full)
			for _, s := range succs(i) {
				for w := range tmp {
					tmp[w] &= pd[s][w]
				}
			}
			tmp[i/64] |= 1 << uint(i%64)
			for w := range tmp {
				if tmp[w] != pd[i][w] {
					changed = true
					copy(pd[i], tmp)
					break
				}
			}
		}
	}
	count := func(s []uint64) int {
		c := 0
		for _, w := range s {
			for ; w != 0; w &= w - 1 {
				c++
			}
		}
		return c
	}
	fi.ipdom = map[*ssa.BasicBlock]*ssa.BasicBlock{}
	for i := 0; i < n; i++ {
		// immediate post-dominator: the strict post-dominator with the largest pdom set
		best, bestC := -1, -1
		for j := 0; j <= n; j++ {
			if j == i || pd[i][j/64]&(1<<uint(j%64)) == 0 {
				continue
			}
			c := count(pd[j])
			if c > bestC {
				best, bestC = j, c
			}
		}
		if best >= 0 && best < n {
			fi.ipdom[fn.Blocks[i]] = fn.Blocks[best]
		} else {
			fi.ipdom[fn.Blocks[i]] = nil
		}
	}
	fi.hasPdom = true
	return fi
}

// ---------- executor

type deferred struct {
	fn   Value
	args []Value
	call *ssa.CallCommon
}

type Frame struct {
	fn        *ssa.Function
	info      *fnInfo
	env       []Value
	defers    []deferred
	panicking *GoPanic
	parent    *Frame
	deferOf   *Frame // set when this frame runs as a deferred call of deferOf
	symCount  map[ssa.Instruction]int
	visits    map[*ssa.BasicBlock]int // entries of each block in this activation (only under vxTerminates)
	merging    map[*ssa.If]bool
	phiDone    *ssa.BasicBlock
	mergedFrom *ssa.BasicBlock
}

type Violation struct {
	Harness   string
	Assertion string
	Kind      string // assert | panic | fatal | deadlock
	Msg       string
	Site      string
	Model     map[string]string
	Decisions []int
	Stack     []string
	Split     map[string]int
	Kinds     map[string]string
	Sched     []int
}

type Inconclusive struct {
	Harness string
	Where   string
	Reason  string
}

type InputDecl struct {
	Name string
	Kind string // int64, uint8, bool, float64, big, bytes...
	Term *Term
}

type Exec struct {
	P       *Program
	ts      *TermStore
	sol     *Solver
	intMode bool

	memLayers []map[*Object]Value
	globals   map[*ssa.Global]*Object
	nextObj   int

	pc []*Term

	prefix    []int
	decIdx    int
	trace     []int
	pending   [][]int // new work items discovered on this path
	specDepth int

	inputs   []InputDecl
	inputSet map[string]bool
	fresh    int

	steps    int
	maxSteps int
	unwind   int
	depth    int
	maxDepth int

	harness string
	splits  map[string]int
	splitN  map[string]int
	zoneOffsets map[*Object]*Term // time.FixedZone locations (timemodel.go)
	curIns   ssa.Instruction // the instruction being executed (for diagnostics)
	exactFmt bool // vxExactFormat(): fmt.Sprintf is modelled exactly where the format is in the model
	tier    int

	// results of this path
	violations   []Violation
	inconclusive []Inconclusive
	discharged   map[string]int
	reached      map[string]int
	covers       map[string]bool
	assumptions  map[string]bool
	fnsEntered   map[*ssa.Function]bool
	expectPanic  string

	initMode    bool
	snapshot    *Snapshot
	snapshotInt *Snapshot

	threads *Sched
	cur     *Frame

	pendingDeferOf *Frame
	specStart      int
	divCache       map[[2]*Term][2]*Term

	unwindIsViolation bool
	bigW              int
	hashBits          int
	flatBases         map[int]flatBaseInfo
	locks             map[string]*lockState
	guards            map[*Object]string
	raceSeen          map[string]bool
	notes             map[string]string
	splitIndex        bool
}

type Snapshot struct {
	mem     map[*Object]Value
	globals map[*ssa.Global]*Object
	nextObj int
}

func NewExec(p *Program, ts *TermStore, sol *Solver) *Exec {
	ex := &Exec{P: p, ts: ts, sol: sol}
	ex.resetPath(nil)
	return ex
}

func (ex *Exec) resetPath(prefix []int) {
	ex.memLayers = []map[*Object]Value{{}}
	ex.globals = map[*ssa.Global]*Object{}
	ex.nextObj = 0
	if ex.snapshot != nil {
		ex.nextObj = ex.snapshot.nextObj
	}
	ex.pc = nil
	ex.prefix = prefix
	ex.decIdx = 0
	ex.trace = nil
	ex.pending = nil
	ex.specDepth = 0
	ex.inputs = nil
	ex.inputSet = map[string]bool{}
	ex.fresh = 0
	ex.steps = 0
	if ex.maxSteps == 0 {
		ex.maxSteps = 5_000_000
	}
	ex.unwind = 64
	ex.bigW = defaultBigW
	ex.hashBits = 0
	ex.flatBases = nil
	ex.locks = nil
	ex.splitIndex = false
	ex.unwindIsViolation = false
	ex.exactFmt = false
	ex.zoneOffsets = nil
	ex.depth = 0
	ex.maxDepth = 200
	ex.intMode = false
	ex.violations = nil
	ex.inconclusive = nil
	ex.discharged = map[string]int{}
	ex.reached = map[string]int{}
	ex.covers = map[string]bool{}
	ex.assumptions = map[string]bool{}
	if ex.fnsEntered == nil {
		ex.fnsEntered = map[*ssa.Function]bool{}
	}
	ex.expectPanic = ""
	ex.divCache = nil
	ex.threads = nil
	ex.cur = nil
}

func (ex *Exec) unsupported(format string, a ...interface{}) {
	msg := fmt.Sprintf(format, a...)
	if ex.curIns != nil {
		msg += " [at " + ex.posOf(ex.curIns) + "]"
	}
	panic(&pathAbort{Kind: "unsupported", Msg: msg})
}

// ---------- memory

func (ex *Exec) memGet(o *Object) (Value, bool) {
	for i := len(ex.memLayers) - 1; i >= 0; i-- {
		if v, ok := ex.memLayers[i][o]; ok {
			return v, true
		}
	}
	if ex.snapshot != nil {
		if v, ok := ex.snapshot.mem[o]; ok {
			return v, true
		}
	}
	return nil, false
}

func (ex *Exec) memSet(o *Object, v Value) {
	ex.memLayers[len(ex.memLayers)-1][o] = v
}

func (ex *Exec) newObject(t types.Type, site string) *Object {
	ex.nextObj++
	o := &Object{ID: ex.nextObj, Typ: t, Site: site}
	ex.memSet(o, ex.zero(t))
	return o
}

func (ex *Exec) newObjectWith(t types.Type, site string, v Value) *Object {
	ex.nextObj++
	o := &Object{ID: ex.nextObj, Typ: t, Site: site}
	ex.memSet(o, v)
	return o
}

func (ex *Exec) intZero(w int) *Term {
	if ex.intMode {
		return ex.ts.IntConst64(0)
	}
	return ex.ts.BVConst(w, 0)
}

func (ex *Exec) zero(t types.Type) Value {
	if isBigIntType(t) {
		return BigV{T: ex.bigConst(big.NewInt(0))}
	}
	switch u := t.Underlying().(type) {
	case *types.Basic:
		switch {
		case u.Info()&types.IsBoolean != 0:
			return ex.ts.False()
		case u.Info()&types.IsInteger != 0:
			w, _, _ := intWidth(u)
			return ex.intZero(w)
		case u.Kind() == types.Float64 || u.Kind() == types.UntypedFloat:
			return ex.ts.F64Const(0)
		case u.Kind() == types.Float32:
			return ex.ts.F32Const(0)
		case u.Info()&types.IsString != 0:
			return StringV{}
		case u.Kind() == types.UnsafePointer:
			return Pointer{}
		case u.Kind() == types.UntypedNil:
			return Pointer{}
		case u.Kind() == types.Complex128 || u.Kind() == types.Complex64:
			return Opaque{"complex"}
		}
	case *types.Struct:
		fs := make([]Value, u.NumFields())
		for i := range fs {
			fs[i] = ex.zero(u.Field(i).Type())
		}
		return &StructV{Fields: fs}
	case *types.Array:
		n := int(u.Len())
		if n > 1<<16 {
			return Opaque{"huge array"}
		}
		es := make([]Value, n)
		if n > 0 {
			z := ex.zero(u.Elem())
			for i := range es {
				es[i] = z
			}
		}
		return &ArrayV{Elems: es}
	case *types.Pointer:
		return Pointer{}
	case *types.Slice:
		return SliceV{}
	case *types.Interface:
		return IfaceV{}
	case *types.Map:
		return MapV{}
	case *types.Signature:
		return (*FuncV)(nil)
	case *types.Chan:
		return ChanV{}
	case *types.Tuple:
		r := make(TupleV, u.Len())
		for i := range r {
			r[i] = ex.zero(u.At(i).Type())
		}
		return r
	}
	return Opaque{"zero of " + typeString(t)}
}

// typeAt returns the static type at the end of path inside t.
func typeAt(t types.Type, path []PathElem) types.Type {
	for _, e := range path {
		switch u := t.Underlying().(type) {
		case *types.Struct:
			t = u.Field(e.Idx).Type()
		case *types.Array:
			t = u.Elem()
		default:
			return nil
		}
	}
	return t
}

func (ex *Exec) loadPath(v Value, path []PathElem) Value {
	for i, e := range path {
		switch x := v.(type) {
		case *StructV:
			if e.Idx >= len(x.Fields) {
				ex.unsupported("load: field index %d out of struct", e.Idx)
			}
			v = x.Fields[e.Idx]
		case *ArrayV:
			if e.Sym != nil {
				// ite chain over all elements
				rest := path[i+1:]
				var acc Value
				for k := len(x.Elems) - 1; k >= 0; k-- {
					ev := ex.loadPath(x.Elems[k], rest)
					if acc == nil {
						acc = ev
						continue
					}
					c := ex.ts.Eq(e.Sym, ex.idxConst(e.Sym, k))
					m, ok := ex.merge(c, ev, acc)
					if !ok {
						ex.unsupported("symbolic index load of unmergeable elements")
					}
					acc = m
				}
				if acc == nil {
					ex.unsupported("symbolic index into empty array")
				}
				return acc
			}
			if e.Idx < 0 || e.Idx >= len(x.Elems) {
				ex.unsupported("load: element %d outside array of %d (unsafe overrun)", e.Idx, len(x.Elems))
			}
			v = x.Elems[e.Idx]
		case Opaque:
			return x
		default:
			ex.unsupported("load path through %T", v)
		}
	}
	return v
}

func (ex *Exec) idxConst(like *Term, k int) *Term {
	if like.Sort.K == SInt {
		return ex.ts.IntConst64(int64(k))
	}
	return ex.ts.BVConst(like.Sort.W, uint64(k))
}

func (ex *Exec) storePath(v Value, path []PathElem, nv Value) Value {
	if len(path) == 0 {
		return nv
	}
	e := path[0]
	switch x := v.(type) {
	case *StructV:
		fs := make([]Value, len(x.Fields))
		copy(fs, x.Fields)
		fs[e.Idx] = ex.storePath(x.Fields[e.Idx], path[1:], nv)
		return &StructV{Fields: fs}
	case *ArrayV:
		es := make([]Value, len(x.Elems))
		copy(es, x.Elems)
		if e.Sym != nil {
			for k := range es {
				upd := ex.storePath(x.Elems[k], path[1:], nv)
				c := ex.ts.Eq(e.Sym, ex.idxConst(e.Sym, k))
				m, ok := ex.merge(c, upd, x.Elems[k])
				if !ok {
					ex.unsupported("symbolic index store of unmergeable elements")
				}
				es[k] = m
			}
			return &ArrayV{Elems: es}
		}
		if e.Idx < 0 || e.Idx >= len(es) {
			ex.unsupported("store: element %d outside array of %d", e.Idx, len(es))
		}
		es[e.Idx] = ex.storePath(x.Elems[e.Idx], path[1:], nv)
		return &ArrayV{Elems: es}
	}
	ex.unsupported("store path through %T", v)
	return nil
}

func (ex *Exec) load(p Pointer, site string) Value {
	if p.Obj == nil {
		ex.goPanicRuntime("invalid memory address or nil pointer dereference", site)
	}
	if ex.guards != nil {
		ex.raceCheck(p.Obj, false, site)
	}
	root, ok := ex.memGet(p.Obj)
	if !ok {
		ex.unsupported("load from unknown object %s", p.Obj)
	}
	return ex.loadPath(root, p.Path)
}

func (ex *Exec) store(p Pointer, v Value, site string) {
	if p.Obj == nil {
		ex.goPanicRuntime("invalid memory address or nil pointer dereference", site)
	}
	if ex.guards != nil {
		ex.raceCheck(p.Obj, true, site)
	}
	root, ok := ex.memGet(p.Obj)
	if !ok {
		ex.unsupported("store to unknown object %s", p.Obj)
	}
	ex.memSet(p.Obj, ex.storePath(root, p.Path, v))
}

// merge builds ite(c, a, b) over structured values.
func (ex *Exec) merge(c *Term, a, b Value) (Value, bool) {
	switch x := a.(type) {
	case nil:
		if b == nil {
			return nil, true
		}
		return nil, false
	case *Term:
		y, ok := b.(*Term)
		if !ok || x.Sort != y.Sort {
			return nil, false
		}
		return ex.ts.Ite(c, x, y), true
	case *StructV:
		y, ok := b.(*StructV)
		if !ok || len(x.Fields) != len(y.Fields) {
			return nil, false
		}
		if x == y {
			return x, true
		}
		fs := make([]Value, len(x.Fields))
		for i := range fs {
			m, ok := ex.merge(c, x.Fields[i], y.Fields[i])
			if !ok {
				return nil, false
			}
			fs[i] = m
		}
		return &StructV{Fields: fs}, true
	case *ArrayV:
		y, ok := b.(*ArrayV)
		if !ok || len(x.Elems) != len(y.Elems) {
			return nil, false
		}
		if x == y {
			return x, true
		}
		es := make([]Value, len(x.Elems))
		for i := range es {
			m, ok := ex.merge(c, x.Elems[i], y.Elems[i])
			if !ok {
				return nil, false
			}
			es[i] = m
		}
		return &ArrayV{Elems: es}, true
	case Pointer:
		y, ok := b.(Pointer)
		if ok && x.Obj == y.Obj && samePath(x.Path, y.Path) {
			return x, true
		}
		return nil, false
	case SliceV:
		y, ok := b.(SliceV)
		if ok && x.Arr.Obj == y.Arr.Obj && samePath(x.Arr.Path, y.Arr.Path) && x.Off == y.Off && x.Len == y.Len && x.Cap == y.Cap {
			return x, true
		}
		return nil, false
	case StringV:
		y, ok := b.(StringV)
		if !ok || len(x.B) != len(y.B) {
			return nil, false
		}
		bs := make([]*Term, len(x.B))
		for i := range bs {
			bs[i] = ex.ts.Ite(c, x.B[i], y.B[i])
		}
		return StringV{B: bs}, true
	case IfaceV:
		y, ok := b.(IfaceV)
		if !ok {
			return nil, false
		}
		if x.T == nil && y.T == nil {
			return x, true
		}
		if x.T == nil || y.T == nil || !types.Identical(x.T, y.T) {
			return nil, false
		}
		m, ok := ex.merge(c, x.V, y.V)
		if !ok {
			return nil, false
		}
		return IfaceV{T: x.T, V: m}, true
	case TupleV:
		y, ok := b.(TupleV)
		if !ok || len(x) != len(y) {
			return nil, false
		}
		r := make(TupleV, len(x))
		for i := range r {
			m, ok := ex.merge(c, x[i], y[i])
			if !ok {
				return nil, false
			}
			r[i] = m
		}
		return r, true
	case BigV:
		y, ok := b.(BigV)
		if !ok || x.T.Sort != y.T.Sort {
			return nil, false
		}
		return BigV{T: ex.ts.Ite(c, x.T, y.T)}, true
	case MapV:
		y, ok := b.(MapV)
		if ok && x.Obj == y.Obj {
			return x, true
		}
		return nil, false
	case *FuncV:
		y, ok := b.(*FuncV)
		if ok && x == y {
			return x, true
		}
		return nil, false
	case Addr:
		y, ok := b.(Addr)
		if ok && x.Obj == y.Obj {
			return Addr{Obj: x.Obj, Off: ex.ts.Ite(c, x.Off, y.Off)}, true
		}
		return nil, false
	case ChanV:
		y, ok := b.(ChanV)
		if ok && x.Obj == y.Obj {
			return x, true
		}
		return nil, false
	case *MapData:
		if y, ok := b.(*MapData); ok && x == y {
			return x, true
		}
		return nil, false
	case iterState:
		if y, ok := b.(iterState); ok && x == y {
			return x, true
		}
		return nil, false
	case HashState:
		y, ok := b.(HashState)
		if !ok || len(x.Elems) != len(y.Elems) {
			return nil, false
		}
		es := make([]Value, len(x.Elems))
		for i := range es {
			m, ok := ex.merge(c, x.Elems[i], y.Elems[i])
			if !ok {
				return nil, false
			}
			es[i] = m
		}
		return HashState{Elems: es}, true
	case BigBytesV:
		y, ok := b.(BigBytesV)
		if !ok || x.T.Sort != y.T.Sort {
			return nil, false
		}
		return BigBytesV{T: ex.ts.Ite(c, x.T, y.T)}, true
	}
	return nil, false
}

// ---------- path condition and decisions

func (ex *Exec) assertPC(c *Term) {
	if c.IsTrue() {
		return
	}
	ex.pc = append(ex.pc, c)
	if ex.sol != nil {
		ex.sol.Assert(c)
	}
}

// decide picks one of several mutually exclusive, jointly exhaustive conditions.
func (ex *Exec) decide(conds []*Term, what string) int {
	if ex.specDepth > 0 {
		panic(&specAbort{"fork needed: " + what})
	}
	if ex.initMode {
		ex.unsupported("symbolic decision during init: %s", what)
	}
	if debugMerge {
		fmt.Fprintf(os.Stderr, "decide@%d replay=%v %s\n", ex.decIdx, ex.decIdx < len(ex.prefix), what)
	}
	if ex.decIdx < len(ex.prefix) {
		i := ex.prefix[ex.decIdx]
		if i < 0 || i >= len(conds) {
			ex.unsupported("decision trace misaligned at %s", what)
		}
		ex.decIdx++
		ex.trace = append(ex.trace, i)
		ex.assertPC(conds[i])
		return i
	}
	var feas []int
	for i, c := range conds {
		if c.IsFalse() {
			continue
		}
		if i == len(conds)-1 && len(feas) == 0 {
			feas = append(feas, i)
			break
		}
		r := ex.sol.Check(c)
		if r != "unsat" {
			feas = append(feas, i)
		}
	}
	if len(feas) == 0 {
		panic(&pathAbort{Kind: "infeasible", Msg: what})
	}
	for _, alt := range feas[1:] {
		item := make([]int, len(ex.trace)+1)
		copy(item, ex.trace)
		item[len(ex.trace)] = alt
		ex.pending = append(ex.pending, item)
	}
	ex.decIdx++
	ex.trace = append(ex.trace, feas[0])
	ex.assertPC(conds[feas[0]])
	return feas[0]
}

func (ex *Exec) branch(c *Term, what string) bool {
	if c.IsTrue() {
		return true
	}
	if c.IsFalse() {
		return false
	}
	return ex.decide([]*Term{c, ex.ts.Not(c)}, what) == 0
}

// concretize forks over the feasible values of t (at most limit) and returns the chosen constant.
func (ex *Exec) concretize(t *Term, limit int, what string) *Term {
	if t.Const {
		return t
	}
	if ex.specDepth > 0 {
		panic(&specAbort{"concretize: " + what})
	}
	var vals []*Term
	excl := ex.ts.True()
	for len(vals) < limit {
		st, vs := ex.sol.EvalTerm(excl, t)
		if st != "sat" {
			if st == "unknown" {
				ex.unsupported("concretize %s: solver unknown", what)
			}
			break
		}
		bi, _ := new(big.Int).SetString(vs, 10)
		var c *Term
		if t.Sort.K == SInt {
			c = ex.ts.IntConst(bi)
		} else {
			c = ex.ts.BVBig(t.Sort.W, bi)
		}
		vals = append(vals, c)
		excl = ex.ts.And(excl, ex.ts.Not(ex.ts.Eq(t, c)))
	}
	if len(vals) == 0 {
		panic(&pathAbort{Kind: "infeasible", Msg: what})
	}
	if len(vals) >= limit {
		if ex.sol.Check(excl) != "unsat" {
			panic(&pathAbort{Kind: "unwind", Msg: fmt.Sprintf("concretize %s: more than %d values", what, limit)})
		}
	}
	sortTerms(vals)
	conds := make([]*Term, len(vals))
	for i, v := range vals {
		conds[i] = ex.ts.Eq(t, v)
	}
	i := ex.decide(conds, what)
	return vals[i]
}

func sortTerms(vals []*Term) {
	for i := 1; i < len(vals); i++ {
		for j := i; j > 0 && vals[j].BigS().Cmp(vals[j-1].BigS()) < 0; j-- {
			vals[j], vals[j-1] = vals[j-1], vals[j]
		}
	}
}

func (ex *Exec) freshVar(prefix string, s Sort) *Term {
	ex.fresh++
	return ex.ts.Var(fmt.Sprintf("%s!%d", prefix, ex.fresh), s)
}

// ---------- interpreted panics

func (ex *Exec) stackStrings() []string {
	var out []string
	for f := ex.cur; f != nil; f = f.parent {
		out = append(out, f.fn.String())
		if len(out) > 12 {
			break
		}
	}
	return out
}

func (ex *Exec) goPanicRuntime(msg, site string) {
	rt := ex.runtimeErrorValue(msg)
	panic(&GoPanic{Val: rt, Msg: "runtime error: " + msg, Runtime: true, Site: site, Stack: ex.stackStrings()})
}

func (ex *Exec) runtimeErrorValue(msg string) Value {
	// an error-like interface value whose dynamic type is runtime.Error-ish; represented opaquely
	return IfaceV{T: runtimeErrorType, V: StringV{B: ex.constBytes("runtime error: " + msg)}}
}

var runtimeErrorType = types.NewNamed(types.NewTypeName(token.NoPos, types.NewPackage("runtime", "runtime"), "vxRuntimeError", nil), types.Typ[types.String], nil)

func (ex *Exec) constBytes(s string) []*Term {
	b := make([]*Term, len(s))
	for i := 0; i < len(s); i++ {
		b[i] = ex.byteConst(s[i])
	}
	return b
}

func (ex *Exec) byteConst(c byte) *Term {
	if ex.intMode {
		return ex.ts.IntConst64(int64(c))
	}
	return ex.ts.BVConst(8, uint64(c))
}

func (ex *Exec) strConst(s string) StringV { return StringV{B: ex.constBytes(s)} }

// check is a run-time safety condition: false => the interpreted program panics.
func (ex *Exec) check(ok *Term, msg, site string) {
	if ok.IsTrue() {
		return
	}
	if ok.IsFalse() || !ex.branch(ok, "runtime check: "+msg) {
		ex.goPanicRuntime(msg, site)
	}
}

// ---------- frames and calls

func (ex *Exec) posOf(ins ssa.Instruction) string {
	if ins == nil {
		return ""
	}
	p := ins.Pos()
	if !p.IsValid() {
		if ins.Parent() != nil {
			return ins.Parent().String()
		}
		return ""
	}
	pos := ex.P.Fset.Position(p)
	fn := ""
	if ins.Parent() != nil {
		fn = ins.Parent().Name()
	}
	return fmt.Sprintf("%s:%d(%s)", trimRepo(pos.Filename), pos.Line, fn)
}

func trimRepo(f string) string {
	if i := strings.Index(f, "/repo/"); i >= 0 {
		return f[i+6:]
	}
	if i := strings.Index(f, "/src/"); i >= 0 {
		return f[i+5:]
	}
	return f
}

func (ex *Exec) get(fr *Frame, v ssa.Value) Value {
	switch x := v.(type) {
	case *ssa.Const:
		return ex.constValue(x)
	case *ssa.Global:
		return Pointer{Obj: ex.globalObj(x)}
	case *ssa.Function:
		return &FuncV{Fn: x}
	case *ssa.Builtin:
		return &FuncV{Builtin: x.Name()}
	}
	i, ok := fr.info.index[v]
	if !ok {
		ex.unsupported("value %s not numbered in %s", v.Name(), fr.fn)
	}
	r := fr.env[i]
	if r == nil {
		if _, isf := v.Type().Underlying().(*types.Signature); isf {
			return (*FuncV)(nil)
		}
		ex.unsupported("read of undefined SSA value %s in %s", v.Name(), fr.fn)
	}
	return r
}

func (ex *Exec) set(fr *Frame, v ssa.Value, val Value) {
	fr.env[fr.info.index[v]] = val
}

func (ex *Exec) constValue(c *ssa.Const) Value {
	t := c.Type()
	if c.Value == nil {
		return ex.zero(t)
	}
	switch u := t.Underlying().(type) {
	case *types.Basic:
		switch {
		case u.Info()&types.IsBoolean != 0:
			return ex.ts.Bool(constant.BoolVal(c.Value))
		case u.Info()&types.IsInteger != 0:
			w, _, _ := intWidth(u)
			bi, ok := constantBig(c.Value)
			if !ok {
				ex.unsupported("const int %v", c.Value)
			}
			if ex.intMode {
				return ex.ts.IntConst(bi)
			}
			return ex.ts.BVBig(w, bi)
		case u.Info()&types.IsFloat != 0:
			f, _ := constant.Float64Val(constant.ToFloat(c.Value))
			if u.Kind() == types.Float32 {
				f32, _ := constant.Float32Val(constant.ToFloat(c.Value))
				return ex.ts.F32Const(f32)
			}
			return ex.ts.F64Const(f)
		case u.Info()&types.IsString != 0:
			return ex.strConst(constant.StringVal(c.Value))
		}
	}
	ex.unsupported("constant of type %s", typeString(t))
	return nil
}

func constantBig(v constant.Value) (*big.Int, bool) {
	v = constant.ToInt(v)
	if v.Kind() != constant.Int {
		return nil, false
	}
	if i, ok := constant.Int64Val(v); ok {
		return big.NewInt(i), true
	}
	bi, ok := new(big.Int).SetString(v.ExactString(), 10)
	return bi, ok
}

func (ex *Exec) globalObj(g *ssa.Global) *Object {
	if o, ok := ex.globals[g]; ok {
		return o
	}
	if ex.snapshot != nil {
		if o, ok := ex.snapshot.globals[g]; ok {
			ex.globals[g] = o
			return o
		}
	}
	et := g.Type().(*types.Pointer).Elem()
	ex.nextObj++
	o := &Object{ID: ex.nextObj, Typ: et, Site: "global " + g.String(), Global: g}
	ex.globals[g] = o
	// initial state: below any speculation layer
	ex.memLayers[0][o] = ex.defaultGlobal(g, et)
	return o
}

// defaultGlobal: package init has not been executed. Pointer-typed globals of the
// packages under test (class/module singletons) become distinct opaque non-nil
// objects; everything else starts at its zero value unless the snapshot has it.
func (ex *Exec) defaultGlobal(g *ssa.Global, et types.Type) Value {
	if pt, ok := et.Underlying().(*types.Pointer); ok {
		if _, isStruct := pt.Elem().Underlying().(*types.Struct); isStruct && g.Pkg != nil && strings.Contains(g.Pkg.Pkg.Path(), "elk-language/elk") {
			ex.nextObj++
			o := &Object{ID: ex.nextObj, Typ: pt.Elem(), Site: "extern " + g.String(), Extern: true}
			ex.memLayers[0][o] = ex.zero(pt.Elem())
			return Pointer{Obj: o}
		}
	}
	return ex.zero(et)
}

func (ex *Exec) callValue(fr *Frame, fv Value, args []Value, site ssa.Instruction) Value {
	f, _ := fv.(*FuncV)
	if f == nil {
		ex.goPanicRuntime("invalid memory address or nil pointer dereference (nil func call)", ex.posOf(site))
	}
	if f.Builtin != "" {
		return ex.callBuiltinValue(fr, f, args, site)
	}
	return ex.callFunction(fr, f.Fn, args, f.Bind, site)
}

func (ex *Exec) callFunction(fr *Frame, fn *ssa.Function, args []Value, bind []Value, site ssa.Instruction) Value {
	if h := ex.intrinsic(fn); h != nil {
		return h(ex, fr, fn, args, site)
	}
	if len(fn.Blocks) == 0 {
		ex.unsupported("call of external function %s", fn)
	}
	return ex.callSSA(fr, fn, args, bind)
}

func (ex *Exec) callSSA(parent *Frame, fn *ssa.Function, args []Value, bind []Value) (ret Value) {
	ex.depth++
	if ex.depth > ex.maxDepth {
		if ex.unwindIsViolation && ex.specDepth == 0 {
			ex.depth = 0
			ex.recordViolation("fatal", "terminates", fmt.Sprintf("call depth exceeded %d: unbounded recursion (Go stack overflow)", ex.maxDepth), fn.String(), nil)
			panic(&pathAbort{Kind: "done", Msg: "recursion bound exceeded"})
		}
		panic(&pathAbort{Kind: "budget", Msg: "call depth exceeded in " + fn.String()})
	}
	ex.fnsEntered[fn] = true
	info := ex.P.info(fn)
	fr := &Frame{fn: fn, info: info, env: make([]Value, info.n), parent: parent}
	for i, p := range fn.Params {
		if i < len(args) {
			fr.env[info.index[p]] = args[i]
		}
	}
	for i, fv := range fn.FreeVars {
		if i < len(bind) {
			fr.env[info.index[fv]] = bind[i]
		}
	}
	savedCur := ex.cur
	ex.cur = fr
	defer func() {
		ex.depth--
		ex.cur = savedCur
		if r := recover(); r != nil {
			gp, ok := r.(*GoPanic)
			if !ok {
				panic(r)
			}
			ex.cur = fr
			fr.panicking = gp
			ex.runDefersOf(fr)
			ex.cur = savedCur
			if fr.panicking != nil {
				panic(fr.panicking)
			}
			// recovered: resume at the Recover block if any
			if fn.Recover != nil {
				ex.depth++
				ex.cur = fr
				ret, _ = ex.runFrom(fr, fn.Recover, nil, nil)
				ex.cur = savedCur
				ex.depth--
			} else {
				ret = ex.zeroResults(fn)
			}
		}
	}()
	ret, _ = ex.runFrom(fr, fn.Blocks[0], nil, nil)
	return ret
}

func (ex *Exec) zeroResults(fn *ssa.Function) Value {
	res := fn.Signature.Results()
	switch res.Len() {
	case 0:
		return nil
	case 1:
		return ex.zero(res.At(0).Type())
	}
	r := make(TupleV, res.Len())
	for i := range r {
		r[i] = ex.zero(res.At(i).Type())
	}
	return r
}

func (ex *Exec) runDefersOf(fr *Frame) {
	for len(fr.defers) > 0 {
		d := fr.defers[len(fr.defers)-1]
		fr.defers = fr.defers[:len(fr.defers)-1]
		ex.invokeDeferred(fr, d)
	}
}

func (ex *Exec) invokeDeferred(fr *Frame, d deferred) {
	f, _ := d.fn.(*FuncV)
	if f == nil {
		ex.goPanicRuntime("nil deferred func", "")
	}
	if f.Builtin != "" {
		ex.callBuiltinValue(fr, f, d.args, nil)
		return
	}
	if h := ex.intrinsic(f.Fn); h != nil {
		h(ex, fr, f.Fn, d.args, nil)
		return
	}
	// mark the callee frame as deferred-by fr so recover() works
	ex.pendingDeferOf = fr
	ex.callSSA(fr, f.Fn, d.args, f.Bind)
}

// runFrom executes blocks starting at b (entered from prev) until the function
// returns, or until control reaches stopAt (speculation), in which case
// joinPred is the block control came from.
func (ex *Exec) runFrom(fr *Frame, b, prev, stopAt *ssa.BasicBlock) (ret Value, joinPred *ssa.BasicBlock) {
	if ex.pendingDeferOf != nil {
		fr.deferOf = ex.pendingDeferOf
		ex.pendingDeferOf = nil
	}
	for {
		if stopAt != nil && b == stopAt {
			return nil, prev
		}
		next, r, done := ex.runBlock(fr, b, prev)
		if done {
			return r, nil
		}
		if fr.mergedFrom != nil {
			// a merge jumped to its join: the phis are already assigned
			prev = fr.mergedFrom
			fr.mergedFrom = nil
			if stopAt != nil && next == stopAt {
				// cannot express "phis already done" to the outer merge
				panic(&specAbort{"nested merge joins at outer join"})
			}
			b = next
			continue
		}
		prev = b
		b = next
	}
}

// concreteLoopBound: entries of one basic block in one activation before vxTerminates calls it a hang
const concreteLoopBound = 100_000

func (ex *Exec) runBlock(fr *Frame, b *ssa.BasicBlock, prev *ssa.BasicBlock) (next *ssa.BasicBlock, ret Value, done bool) {
	if debugMerge {
		pi := -1
		if prev != nil {
			pi = prev.Index
		}
		fmt.Fprintf(os.Stderr, "  block %s#%d from %d spec=%d phiDone=%v\n", fr.fn.Name(), b.Index, pi, ex.specDepth, fr.phiDone != nil)
	}
	if ex.unwindIsViolation && ex.specDepth == 0 {
		// a loop whose conditions are all concrete never reaches the symbolic unwinding bound:
		// bound the entries of one block in one activation instead
		if fr.visits == nil {
			fr.visits = map[*ssa.BasicBlock]int{}
		}
		fr.visits[b]++
		if fr.visits[b] > concreteLoopBound {
			where := fr.fn.String()
			if len(b.Instrs) > 0 {
				where = ex.posOf(b.Instrs[0])
			}
			ex.recordViolation("hang", "terminates", fmt.Sprintf("a block of %s entered more than %d times in one activation with every loop condition concrete", fr.fn.String(), concreteLoopBound), where, nil)
			panic(&pathAbort{Kind: "done", Msg: "termination bound exceeded"})
		}
	}
	// phis first (parallel assignment)
	nphi := 0
	if fr.phiDone == b {
		fr.phiDone = nil
		for _, ins := range b.Instrs {
			if _, ok := ins.(*ssa.Phi); !ok {
				break
			}
			nphi++
		}
	} else if prev != nil {
		predIdx := -1
		for i, p := range b.Preds {
			if p == prev {
				predIdx = i
				break
			}
		}
		var vals []Value
		for _, ins := range b.Instrs {
			phi, ok := ins.(*ssa.Phi)
			if !ok {
				break
			}
			if predIdx < 0 {
				ex.unsupported("phi without predecessor")
			}
			vals = append(vals, ex.get(fr, phi.Edges[predIdx]))
			nphi++
		}
		for i := 0; i < nphi; i++ {
			ex.set(fr, b.Instrs[i].(*ssa.Phi), vals[i])
		}
	}
	for _, ins := range b.Instrs[nphi:] {
		ex.curIns = ins
		ex.steps++
		if ex.steps > ex.maxSteps {
			if ex.unwindIsViolation && ex.specDepth == 0 {
				ex.recordViolation("hang", "terminates", fmt.Sprintf("more than %d instructions on one path", ex.maxSteps), ex.posOf(ins), nil)
				panic(&pathAbort{Kind: "done", Msg: "termination bound exceeded"})
			}
			panic(&pathAbort{Kind: "budget", Msg: "instruction budget exceeded"})
		}
		if ex.specDepth > 0 && ex.steps-ex.specStart > specStepLimit {
			panic(&specAbort{"speculation step limit"})
		}
		switch x := ins.(type) {
		case *ssa.If:
			c := ex.get(fr, x.Cond).(*Term)
			if c.Const {
				if c.U == 1 {
					return b.Succs[0], nil, false
				}
				return b.Succs[1], nil, false
			}
			return ex.symbolicIf(fr, b, x, c)
		case *ssa.Jump:
			return b.Succs[0], nil, false
		case *ssa.Return:
			switch len(x.Results) {
			case 0:
				return nil, nil, true
			case 1:
				return nil, ex.get(fr, x.Results[0]), true
			}
			r := make(TupleV, len(x.Results))
			for i, rv := range x.Results {
				r[i] = ex.get(fr, rv)
			}
			return nil, r, true
		case *ssa.Panic:
			v := ex.get(fr, x.X)
			panic(&GoPanic{Val: v, Msg: ex.panicMessage(v), Site: ex.posOf(x), Stack: ex.stackStrings()})
		default:
			ex.exec(fr, ins)
		}
	}
	ex.unsupported("block without terminator")
	return
}

func (ex *Exec) panicMessage(v Value) string {
	if iv, ok := v.(IfaceV); ok {
		if s, ok := iv.V.(StringV); ok {
			if cs, ok := concreteString(s); ok {
				return cs
			}
			return "<symbolic string>"
		}
		return fmt.Sprintf("panic(%s)", typeString(iv.T))
	}
	return "panic"
}

// symbolicIf handles an If on a symbolic condition: first try to merge both arms
// into ite terms (speculation), otherwise fork.
func (ex *Exec) symbolicIf(fr *Frame, b *ssa.BasicBlock, x *ssa.If, c *Term) (*ssa.BasicBlock, Value, bool) {
	noMerge := ex.initMode || os.Getenv("VX_NOMERGE") != ""
	if debugMerge {
		fmt.Fprintf(os.Stderr, "symIf@%d spec=%d replay=%v %s block %d\n", ex.decIdx, ex.specDepth, ex.decIdx < len(ex.prefix), ex.posOf(x), b.Index)
	}
	switch {
	case noMerge:
	case ex.specDepth > 0:
		// nested inside a speculated arm: merging is the only option (a fork aborts the arm)
		if nb, rv, done, ok := ex.tryMerge(fr, b, x, c); ok {
			return nb, rv, done
		}
	case ex.decIdx < len(ex.prefix):
		// replaying: the recorded outcome says whether this If was merged
		if ex.prefix[ex.decIdx] == -1 {
			ex.decIdx++
			ex.trace = append(ex.trace, -1)
			nb, rv, done, ok := ex.tryMerge(fr, b, x, c)
			if !ok {
				ex.unsupported("merge at %s not reproducible on replay", ex.posOf(x))
			}
			return nb, rv, done
		}
	default:
		n, seen := ex.P.noMerge.Load(x)
		if !seen || n.(int) < 3 {
			if nb, rv, done, ok := ex.tryMerge(fr, b, x, c); ok {
				ex.decIdx++
				ex.trace = append(ex.trace, -1)
				return nb, rv, done
			}
			cnt := 0
			if seen {
				cnt = n.(int)
			}
			ex.P.noMerge.Store(x, cnt+1)
		}
	}
	if fr.symCount == nil {
		fr.symCount = map[ssa.Instruction]int{}
	}
	fr.symCount[x]++
	if fr.symCount[x] > ex.unwind {
		if ex.unwindIsViolation && ex.specDepth == 0 {
			ex.recordViolation("hang", "terminates", fmt.Sprintf("loop condition decided more than %d times in one activation", ex.unwind), ex.posOf(x), nil)
			panic(&pathAbort{Kind: "done", Msg: "termination bound exceeded"})
		}
		panic(&pathAbort{Kind: "unwind", Msg: fmt.Sprintf("symbolic branch at %s taken more than %d times in one activation", ex.posOf(x), ex.unwind)})
	}
	if ex.branch(c, "if at "+ex.posOf(x)) {
		return b.Succs[0], nil, false
	}
	return b.Succs[1], nil, false
}

type armResult struct {
	returned bool
	ret      Value
	pred     *ssa.BasicBlock
	layer    map[*Object]Value
	defers   []deferred
	env      []Value
	ok       bool
}

const specStepLimit = 30000

func (ex *Exec) runArm(fr *Frame, start, from, join *ssa.BasicBlock) (res armResult) {
	if ex.specDepth == 0 {
		ex.specStart = ex.steps
	}
	ex.specDepth++
	ex.memLayers = append(ex.memLayers, map[*Object]Value{})
	savedDefers := append([]deferred(nil), fr.defers...)
	savedEnv := append([]Value(nil), fr.env...)
	savedCur := ex.cur
	savedDepth := ex.depth
	savedPC := len(ex.pc)
	defer func() {
		res.layer = ex.memLayers[len(ex.memLayers)-1]
		ex.memLayers = ex.memLayers[:len(ex.memLayers)-1]
		ex.specDepth--
		res.defers = fr.defers
		fr.defers = savedDefers
		// loops re-assign phi registers: the arm's view of the frame must not leak
		res.env = fr.env
		fr.env = savedEnv
		fr.phiDone = nil
		fr.mergedFrom = nil
		ex.cur = savedCur
		ex.depth = savedDepth
		ex.pc = ex.pc[:savedPC]
		if r := recover(); r != nil {
			switch pa := r.(type) {
			case *specAbort, *GoPanic:
				res.ok = false
			case *pathAbort:
				if pa.Kind == "unsupported" || pa.Kind == "budget" || pa.Kind == "unwind" {
					res.ok = false // retry by forking: the real path reports it if it is real
				} else {
					panic(r)
				}
			default:
				panic(r)
			}
		}
	}()
	if join != nil && start == join {
		res.pred = from
		res.ok = true
		return
	}
	out, pred := ex.runFrom(fr, start, from, join)
	if pred != nil {
		res.pred = pred
		res.ok = true
		return
	}
	if join != nil {
		return // returned before reaching the join
	}
	res.returned = true
	res.ret = out
	res.ok = true
	return
}

func (ex *Exec) tryMerge(fr *Frame, b *ssa.BasicBlock, x *ssa.If, c *Term) (next *ssa.BasicBlock, ret Value, done bool, ok bool) {
	if fr.merging[x] {
		return ex.mergeFail(x, 1) // loop back to an If that is being merged
	}
	if fr.merging == nil {
		fr.merging = map[*ssa.If]bool{}
	}
	fr.merging[x] = true
	defer delete(fr.merging, x)
	fi := ex.P.postdom(fr.fn)
	join := fi.ipdom[b]
	if join == nil && fr.fn.Recover != nil {
		return ex.mergeFail(x, 2)
	}
	a := ex.runArm(fr, b.Succs[0], b, join)
	if !a.ok {
		return ex.mergeFail(x, 3)
	}
	bb := ex.runArm(fr, b.Succs[1], b, join)
	if !bb.ok {
		return ex.mergeFail(x, 4)
	}
	if len(a.defers) != len(bb.defers) {
		return ex.mergeFail(x, 5)
	}
	for i := range a.defers {
		if a.defers[i].call != bb.defers[i].call {
			return ex.mergeFail(x, 6)
		}
	}
	// merge memory
	merged := map[*Object]Value{}
	for o, va := range a.layer {
		vb, okb := bb.layer[o]
		if !okb {
			base, okBase := ex.memGet(o)
			if !okBase {
				// allocated inside arm a only
				merged[o] = va
				continue
			}
			vb = base
		}
		m, okm := ex.merge(c, va, vb)
		if !okm {
			return ex.mergeFail(x, 7)
		}
		merged[o] = m
	}
	for o, vb := range bb.layer {
		if _, oka := a.layer[o]; oka {
			continue
		}
		base, okBase := ex.memGet(o)
		if !okBase {
			merged[o] = vb
			continue
		}
		m, okm := ex.merge(c, base, vb)
		if !okm {
			return ex.mergeFail(x, 8)
		}
		merged[o] = m
	}
	var phiVals []Value
	if join != nil {
		// phi values at the join
		ia, ib := -1, -1
		for i, p := range join.Preds {
			if p == a.pred && ia < 0 {
				ia = i
			}
			if p == bb.pred {
				ib = i
			}
		}
		// when both arms arrive from the same predecessor block (a.pred == b.pred)
		// no phi can distinguish them
		for _, ins := range join.Instrs {
			phi, isPhi := ins.(*ssa.Phi)
			if !isPhi {
				break
			}
			if ia < 0 || ib < 0 {
				return ex.mergeFail(x, 9)
			}
			// evaluate each edge in the env of the respective arm: SSA registers are
			// single-assignment, and arms define disjoint registers, so env is shared.
			keep := fr.env
			fr.env = a.env
			va := ex.getOrNil(fr, phi.Edges[ia])
			fr.env = bb.env
			vb := ex.getOrNil(fr, phi.Edges[ib])
			fr.env = keep
			if va == nil || vb == nil {
				return ex.mergeFail(x, 10)
			}
			m, okm := ex.merge(c, va, vb)
			if !okm {
				return ex.mergeFail(x, 11)
			}
			if debugMerge {
				fmt.Fprintf(os.Stderr, "merge phi %s: ia=%d ib=%d va=%v vb=%v c=%v -> %v\n", phi.Name(), ia, ib, va, vb, c, m)
			}
			phiVals = append(phiVals, m)
		}
	} else {
		m, okm := ex.merge(c, a.ret, bb.ret)
		if !okm {
			return ex.mergeFail(x, 12)
		}
		ret = m
	}
	// Registers that were live before the If and were re-assigned inside an arm: an arm that goes
	// round a loop re-assigns the loop header's phis (and whatever the body defines), and a join that
	// those definitions dominate reads them directly, without a phi of its own. (A register that the
	// join can read without a phi is defined before the If: its block dominates the join, and nothing
	// strictly between the If and its immediate post-dominator post-dominates the If.)
	type regMerge struct {
		k int
		v Value
	}
	var regs []regMerge
	if join != nil {
		pre := fr.env
		for k := range pre {
			if pre[k] == nil || k >= len(a.env) || k >= len(bb.env) {
				continue
			}
			va, vb := a.env[k], bb.env[k]
			if sameValue(va, pre[k]) && sameValue(vb, pre[k]) {
				continue
			}
			m, okm := ex.merge(c, va, vb)
			if !okm {
				return ex.mergeFail(x, 13)
			}
			regs = append(regs, regMerge{k, m})
		}
	}
	// commit
	for o, v := range merged {
		ex.memSet(o, v)
	}
	fr.defers = a.defers
	if join == nil {
		return nil, ret, true, true
	}
	for _, r := range regs {
		fr.env[r.k] = r.v
	}
	for i, v := range phiVals {
		ex.set(fr, join.Instrs[i].(*ssa.Phi), v)
	}
	fr.phiDone = join
	fr.mergedFrom = b
	return join, nil, false, true
}

// sameValue: identical values (pointer identity for terms and heap cells; values of types that do
// not support == count as different)
func sameValue(a, b Value) (same bool) {
	defer func() {
		if recover() != nil {
			same = false
		}
	}()
	return a == b
}

func (ex *Exec) mergeFail(x *ssa.If, why int) (*ssa.BasicBlock, Value, bool, bool) {
	if debugMerge {
		fmt.Fprintf(os.Stderr, "merge fail #%d at %s in %s (specDepth %d)\n", why, ex.posOf(x), x.Parent(), ex.specDepth)
	}
	return nil, nil, false, false
}

var debugMerge = os.Getenv("VX_DEBUGMERGE") != ""

func (ex *Exec) getOrNil(fr *Frame, v ssa.Value) (r Value) {
	defer func() {
		if e := recover(); e != nil {
			if _, ok := e.(*pathAbort); ok {
				r = nil
				return
			}
			panic(e)
		}
	}()
	return ex.get(fr, v)
}
