package main

// Symbolic Go values and the per-path heap.

import (
	"fmt"
	"go/types"
	"strings"

	"golang.org/x/tools/go/ssa"
)

type Value interface{}

type StructV struct{ Fields []Value } // immutable
type ArrayV struct{ Elems []Value }   // immutable

type PathElem struct {
	Idx int
	Sym *Term // symbolic element index (BV64 or Int) when non-nil
}

type Pointer struct {
	Obj  *Object
	Path []PathElem
}

type SliceV struct {
	Arr           Pointer // points at an ArrayV; Obj == nil means nil slice
	Off, Len, Cap int
}

type StringV struct{ B []*Term } // bytes, each BV8 (or Int in int mode)

type IfaceV struct {
	T types.Type // nil => nil interface
	V Value
}

type MapV struct{ Obj *Object } // content *MapData; Obj == nil => nil map

type MapEntry struct{ K, V Value }
type MapData struct{ Entries []MapEntry } // immutable

type FuncV struct {
	Fn      *ssa.Function
	Bind    []Value
	Builtin string
	Recv    Value // bound method receiver (for method values via builtin paths)
}

type TupleV []Value

// Addr is a uintptr / unsafe.Pointer obtained from a pointer: object + byte offset.
type Addr struct {
	Obj *Object
	Off *Term // BV64 (or Int) byte offset from the start of the object
}

type ChanV struct{ Obj *Object }

// BigV is the content of a math/big.Int object: a mathematical integer (Int sort)
// in int mode or a wide two's complement bit-vector in bv mode.
type BigV struct{ T *Term }

// BigBytesV is the single pseudo-element of the slice returned by big.Int.Bytes():
// "the magnitude bytes of T" (only ever fed to a hash).
type BigBytesV struct{ T *Term }

// Opaque stands for a value the engine does not model; using it in a way that
// matters makes the path unsupported.
type Opaque struct{ Why string }

type Object struct {
	ID     int
	Typ    types.Type
	Site   string
	Global *ssa.Global
	Extern bool // opaque external object (class globals etc.)
}

func (o *Object) String() string {
	if o == nil {
		return "nil"
	}
	return fmt.Sprintf("obj%d<%s>", o.ID, o.Site)
}

var sizes = types.SizesFor("gc", "amd64")

func isNilPtr(p Pointer) bool { return p.Obj == nil }

func samePath(a, b []PathElem) bool {
	if len(a) != len(b) {
		return false
	}
	for i := range a {
		if a[i].Idx != b[i].Idx || a[i].Sym != b[i].Sym {
			return false
		}
	}
	return true
}

func appendPath(p []PathElem, e PathElem) []PathElem {
	n := make([]PathElem, len(p)+1)
	copy(n, p)
	n[len(p)] = e
	return n
}

// ---------- type helpers

func under(t types.Type) types.Type { return t.Underlying() }

func isBigIntType(t types.Type) bool {
	// math/big.Int or any named type whose underlying struct is big.Int's
	if n, ok := types.Unalias(t).(*types.Named); ok {
		if n.Obj().Pkg() != nil && n.Obj().Pkg().Path() == "math/big" && n.Obj().Name() == "Int" {
			return true
		}
	}
	st, ok := t.Underlying().(*types.Struct)
	if !ok || st.NumFields() != 2 {
		return false
	}
	f0, f1 := st.Field(0), st.Field(1)
	if f0.Name() != "neg" || f1.Name() != "abs" || f0.Pkg() == nil || f0.Pkg().Path() != "math/big" {
		return false
	}
	return true
}

func isBigFloatType(t types.Type) bool {
	st, ok := t.Underlying().(*types.Struct)
	if !ok || st.NumFields() < 5 {
		return false
	}
	f0 := st.Field(0)
	return f0.Name() == "prec" && f0.Pkg() != nil && f0.Pkg().Path() == "math/big"
}

func typeString(t types.Type) string {
	if t == nil {
		return "<nil>"
	}
	return types.TypeString(t, nil)
}

func isNamed(t types.Type, pkg, name string) bool {
	n, ok := types.Unalias(t).(*types.Named)
	if !ok {
		return false
	}
	return n.Obj().Name() == name && n.Obj().Pkg() != nil && n.Obj().Pkg().Path() == pkg
}

func intWidth(b *types.Basic) (w int, signed bool, ok bool) {
	switch b.Kind() {
	case types.Int8:
		return 8, true, true
	case types.Int16:
		return 16, true, true
	case types.Int32, types.UntypedRune:
		return 32, true, true
	case types.Int64, types.Int, types.UntypedInt:
		return 64, true, true
	case types.Uint8:
		return 8, false, true
	case types.Uint16:
		return 16, false, true
	case types.Uint32:
		return 32, false, true
	case types.Uint64, types.Uint, types.Uintptr:
		return 64, false, true
	}
	return 0, false, false
}

func describe(v Value) string {
	switch x := v.(type) {
	case nil:
		return "<nil>"
	case *Term:
		return x.String()
	case *StructV:
		var sb strings.Builder
		sb.WriteString("{")
		for i, f := range x.Fields {
			if i > 0 {
				sb.WriteString(", ")
			}
			sb.WriteString(describe(f))
		}
		sb.WriteString("}")
		return sb.String()
	case *ArrayV:
		return fmt.Sprintf("[%d]…", len(x.Elems))
	case Pointer:
		if x.Obj == nil {
			return "nilptr"
		}
		return fmt.Sprintf("&%s%v", x.Obj, x.Path)
	case SliceV:
		return fmt.Sprintf("slice(%s+%d,len=%d,cap=%d)", x.Arr.Obj, x.Off, x.Len, x.Cap)
	case StringV:
		if s, ok := concreteString(x); ok {
			return fmt.Sprintf("%q", s)
		}
		return fmt.Sprintf("string[%d]", len(x.B))
	case IfaceV:
		if x.T == nil {
			return "nil-iface"
		}
		return fmt.Sprintf("iface(%s:%s)", typeString(x.T), describe(x.V))
	case MapV:
		return "map@" + x.Obj.String()
	case *FuncV:
		if x.Fn != nil {
			return "func " + x.Fn.String()
		}
		return "builtin " + x.Builtin
	case TupleV:
		return fmt.Sprintf("tuple%d", len(x))
	case Addr:
		return fmt.Sprintf("addr(%s+%s)", x.Obj, x.Off)
	case BigV:
		return "big(" + x.T.String() + ")"
	case Opaque:
		return "opaque(" + x.Why + ")"
	}
	return fmt.Sprintf("%T", v)
}

func concreteString(s StringV) (string, bool) {
	b := make([]byte, len(s.B))
	for i, t := range s.B {
		if !t.Const {
			return "", false
		}
		if t.B != nil {
			b[i] = byte(t.B.Uint64())
		} else {
			b[i] = byte(t.U)
		}
	}
	return string(b), true
}
