package main

// Schedule replay: a mechanically instrumented copy of the package under test in which every
// visible operation (the calls the engine models in sched.go) is preceded by vxYield(). The
// copy is regenerated from the current working tree for every replay and only ever lives in
// the replay overlay.

import (
	"bytes"
	"go/ast"
	"go/printer"
	"go/token"
	"go/types"
	"os"
	"path/filepath"
	"strings"

	"golang.org/x/tools/go/ast/astutil"
	"golang.org/x/tools/go/packages"
)

var visibleMethods = map[string]bool{
	"(*sync.Mutex).Lock": true, "(*sync.Mutex).Unlock": true, "(*sync.Mutex).TryLock": true,
	"(*sync.RWMutex).Lock": true, "(*sync.RWMutex).Unlock": true, "(*sync.RWMutex).RLock": true, "(*sync.RWMutex).RUnlock": true,
	"(*sync.RWMutex).TryLock": true, "(*sync.RWMutex).TryRLock": true,
	"(*sync.WaitGroup).Add": true, "(*sync.WaitGroup).Done": true, "(*sync.WaitGroup).Wait": true,
	"(*sync.Once).Do": true,
}

func (p *Program) loadedPackage(pkgDir string) *packages.Package {
	want := filepath.Join(repoDir, pkgDir)
	for _, lp := range p.Loaded {
		for _, f := range lp.GoFiles {
			if filepath.Dir(f) == want {
				return lp
			}
		}
	}
	return nil
}

// instrumentPackage returns overlay entries (original path -> instrumented copy) for the
// files of pkgDir that contain visible operations.
func instrumentPackage(P *Program, hs *harnessSet, pkgDir string) map[string]string {
	P.instrMu.Lock()
	defer P.instrMu.Unlock()
	if P.instr == nil {
		P.instr = map[string]map[string]string{}
	}
	if done, ok := P.instr[pkgDir]; ok {
		return done
	}
	out := map[string]string{}
	P.instr[pkgDir] = out
	lp := P.loadedPackage(pkgDir)
	if lp == nil {
		return out
	}
	for i, file := range lp.Syntax {
		if i >= len(lp.CompiledGoFiles) {
			break
		}
		path := lp.CompiledGoFiles[i]
		if strings.HasSuffix(path, "_test.go") || strings.Contains(filepath.Base(path), "zz_vx_") {
			continue
		}
		changed := false
		yieldStmt := func() ast.Stmt { return &ast.ExprStmt{X: &ast.CallExpr{Fun: ast.NewIdent("vxYield")}} }
		// channel operations: a yield before the simple statement (or select) that performs one
		astutil.Apply(file, func(c *astutil.Cursor) bool {
			st, ok := c.Node().(ast.Stmt)
			if !ok || c.Index() < 0 {
				return true
			}
			switch x := st.(type) {
			case *ast.SelectStmt:
				c.InsertBefore(yieldStmt())
				changed = true
			case *ast.RangeStmt:
				if t := lp.TypesInfo.TypeOf(x.X); t != nil {
					if _, isChan := t.Underlying().(*types.Chan); isChan {
						c.InsertBefore(yieldStmt())
						x.Body.List = append(x.Body.List, yieldStmt())
						changed = true
					}
				}
			case *ast.SendStmt, *ast.ExprStmt, *ast.AssignStmt, *ast.ReturnStmt, *ast.DeclStmt, *ast.IncDecStmt:
				found := false
				ast.Inspect(st, func(n ast.Node) bool {
					switch y := n.(type) {
					case *ast.FuncLit:
						return false
					case *ast.SendStmt:
						found = true
					case *ast.UnaryExpr:
						if y.Op == token.ARROW {
							found = true
						}
					case *ast.CallExpr:
						if id, ok := y.Fun.(*ast.Ident); ok && id.Name == "close" {
							if _, isBuiltin := lp.TypesInfo.Uses[id].(*types.Builtin); isBuiltin {
								found = true
							}
						}
					}
					return true
				})
				if found {
					c.InsertBefore(yieldStmt())
					changed = true
				}
			}
			return true
		}, nil)
		astutil.Apply(file, nil, func(c *astutil.Cursor) bool {
			call, ok := c.Node().(*ast.CallExpr)
			if !ok {
				return true
			}
			sel, ok := call.Fun.(*ast.SelectorExpr)
			if !ok {
				return true
			}
			s := lp.TypesInfo.Selections[sel]
			if s == nil {
				return true
			}
			fn, ok := s.Obj().(*types.Func)
			if !ok || !visibleMethods[fn.FullName()] {
				return true
			}
			sig := fn.Type().(*types.Signature)
			yield := &ast.ExprStmt{X: &ast.CallExpr{Fun: ast.NewIdent("vxYield")}}
			var body []ast.Stmt
			ftype := &ast.FuncType{Params: &ast.FieldList{}}
			if sig.Results().Len() == 0 {
				body = []ast.Stmt{yield, &ast.ExprStmt{X: call}}
			} else {
				ftype.Results = &ast.FieldList{List: []*ast.Field{{Type: ast.NewIdent(types.TypeString(sig.Results().At(0).Type(), nil))}}}
				body = []ast.Stmt{yield, &ast.ReturnStmt{Results: []ast.Expr{call}}}
			}
			c.Replace(&ast.CallExpr{Fun: &ast.FuncLit{Type: ftype, Body: &ast.BlockStmt{List: body}}})
			changed = true
			return true
		})
		if !changed {
			continue
		}
		var buf bytes.Buffer
		if err := printer.Fprint(&buf, P.Fset, file); err != nil {
			continue
		}
		dst := filepath.Join(hs.scratch, "instr_"+strings.ReplaceAll(pkgDir, "/", "__")+"_"+filepath.Base(path))
		if os.WriteFile(dst, buf.Bytes(), 0644) == nil {
			out[path] = dst
		}
	}
	return out
}
