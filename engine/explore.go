package main

// Job driver: harness × split values × decision prefixes, worker pool, results,
// native replay, known findings, evidence.

import (
	"bufio"
	"encoding/json"
	"fmt"
	"math/big"
	"os"
	"path/filepath"
	"regexp"
	"runtime/debug"
	"sort"
	"strings"
	"sync"
	"time"

	"golang.org/x/tools/go/ssa"
)

type job struct {
	harness string
	fn      *ssa.Function
	splits  map[string]int

	mu           sync.Mutex
	paths        int
	steps        int
	pathsByKind  map[string]int
	violations   []Violation
	inconclusive []Inconclusive
	discharged   map[string]int
	reached      map[string]int
	covers       map[string]bool
	assumptions  map[string]bool
	outstanding  int
	maxDepth     int
}

func (j *job) label() string {
	if len(j.splits) == 0 {
		return j.harness
	}
	var parts []string
	for _, k := range sortedKeys(j.splits) {
		parts = append(parts, fmt.Sprintf("%s=%d", k, j.splits[k]))
	}
	return j.harness + "[" + strings.Join(parts, ",") + "]"
}

type task struct {
	j      *job
	prefix []int
}

type driver struct {
	rc      *runConfig
	P       *Program
	snap    *Snapshot
	snapInt *Snapshot
	mu      sync.Mutex
	cond    *sync.Cond
	queue   []task
	active  int
	jobs    []*job
	stop    bool
	stats   SolverStats
	fns     map[*ssa.Function]bool
	deadline time.Time
	timedOut bool
}

func (d *driver) push(t task) {
	d.mu.Lock()
	d.queue = append(d.queue, t)
	t.j.mu.Lock()
	t.j.outstanding++
	t.j.mu.Unlock()
	d.cond.Signal()
	d.mu.Unlock()
}

func (d *driver) pop() (task, bool) {
	d.mu.Lock()
	defer d.mu.Unlock()
	for {
		if len(d.queue) > 0 && !d.stop {
			// depth-first: take the most recent task
			t := d.queue[len(d.queue)-1]
			d.queue = d.queue[:len(d.queue)-1]
			d.active++
			return t, true
		}
		if d.active == 0 || d.stop {
			d.cond.Broadcast()
			return task{}, false
		}
		d.cond.Wait()
	}
}

func (d *driver) done() {
	d.mu.Lock()
	d.active--
	if d.active == 0 && len(d.queue) == 0 {
		d.cond.Broadcast()
	}
	d.mu.Unlock()
}

func (d *driver) addJob(harness string, fn *ssa.Function, splits map[string]int) {
	j := &job{harness: harness, fn: fn, splits: splits, discharged: map[string]int{}, reached: map[string]int{}, covers: map[string]bool{}, assumptions: map[string]bool{}, pathsByKind: map[string]int{}}
	d.mu.Lock()
	d.jobs = append(d.jobs, j)
	d.mu.Unlock()
	d.push(task{j: j})
}

func (d *driver) worker(id int) {
	var sol *Solver
	defer func() {
		if sol != nil {
			sol.Close()
			d.mu.Lock()
			d.stats.Sat += sol.Stats.Sat
			d.stats.Unsat += sol.Stats.Unsat
			d.stats.Unknown += sol.Stats.Unknown
			d.stats.Errors += sol.Stats.Errors
			d.stats.Seconds += sol.Stats.Seconds
			if sol.Stats.SlowestMs > d.stats.SlowestMs {
				d.stats.SlowestMs = sol.Stats.SlowestMs
			}
			d.mu.Unlock()
		}
	}()
	npaths := 0
	for {
		t, ok := d.pop()
		if !ok {
			return
		}
		if time.Now().After(d.deadline) {
			d.mu.Lock()
			d.timedOut = true
			d.stop = true
			d.cond.Broadcast()
			d.mu.Unlock()
			t.j.mu.Lock()
			t.j.inconclusive = append(t.j.inconclusive, Inconclusive{Harness: t.j.label(), Where: "exploration", Reason: "wall budget exhausted with unexplored paths"})
			t.j.mu.Unlock()
			d.done()
			return
		}
		ts := NewTermStore()
		if sol == nil || sol.dead || npaths%500 == 499 {
			if sol != nil {
				st := sol.Stats
				sol.Close()
				ns, err := NewSolver(d.rc.solver, ts, d.rc.solverMs)
				if err == nil {
					ns.Stats = st
				}
				sol = ns
			} else {
				s, err := NewSolver(d.rc.solver, ts, d.rc.solverMs)
				if err != nil {
					fmt.Fprintln(os.Stderr, "cannot start solver:", err)
					d.done()
					return
				}
				sol = s
			}
		}
		sol.ResetFor(ts)
		npaths++
		d.runPath(t, ts, sol)
		d.done()
	}
}

func (d *driver) runPath(t task, ts *TermStore, sol *Solver) {
	ex := NewExec(d.P, ts, sol)
	ex.snapshot = d.snap
	ex.snapshotInt = d.snapInt
	ex.resetPath(t.prefix)
	ex.harness = t.j.label()
	ex.splits = t.j.splits
	ex.splitN = nil
	ex.tier = tierNum(d.rc.tier)
	kind := "completed"
	var splitReq string
	func() {
		defer func() {
			if r := recover(); r != nil {
				switch x := r.(type) {
				case *pathAbort:
					kind = x.Kind
					switch x.Kind {
					case "split":
						splitReq = x.Msg
					case "unsupported", "unwind", "budget":
						ex.inconclusive = append(ex.inconclusive, Inconclusive{Harness: ex.harness, Where: "path " + fmt.Sprint(ex.trace), Reason: x.Kind + ": " + x.Msg})
					}
				case *GoPanic:
					kind = "panic"
					if ex.expectPanic != "" && strings.Contains(x.Msg, ex.expectPanic) {
						kind = "expected-panic"
						return
					}
					vk := "panic"
					if x.Fatal {
						vk = "fatal"
					}
					func() {
						defer func() {
							if r2 := recover(); r2 != nil {
								ex.inconclusive = append(ex.inconclusive, Inconclusive{Harness: ex.harness, Where: "panic model", Reason: fmt.Sprint(r2)})
							}
						}()
						ex.cur = nil
						ex.recordViolation(vk, "no-panic", x.Msg, x.Site, nil)
						if n := len(ex.violations); n > 0 {
							ex.violations[n-1].Stack = x.Stack
						}
					}()
				case *specAbort:
					kind = "unsupported"
					ex.inconclusive = append(ex.inconclusive, Inconclusive{Harness: ex.harness, Where: "path", Reason: "speculation abort escaped: " + x.Why})
				default:
					kind = "engine-error"
					ex.inconclusive = append(ex.inconclusive, Inconclusive{Harness: ex.harness, Where: "path " + fmt.Sprint(ex.trace), Reason: fmt.Sprintf("engine error: %v\n%s", r, firstLines(string(debug.Stack()), 30))})
				}
			}
		}()
		ex.callSSA(nil, t.j.fn, nil, nil)
	}()
	ex.killThreads()
	sol.PopAll()
	if splitReq != "" {
		var name string
		var n int
		i := strings.LastIndex(splitReq, ":")
		name = splitReq[:i]
		fmt.Sscanf(splitReq[i+1:], "%d", &n)
		for v := 0; v < n; v++ {
			if so := d.rc.splitOnly; strings.HasPrefix(so, name+"=") && so != fmt.Sprintf("%s=%d", name, v) {
				continue // --split: debugging filter
			}
			sp := map[string]int{}
			for k, x := range t.j.splits {
				sp[k] = x
			}
			sp[name] = v
			d.addJob(t.j.harness, t.j.fn, sp)
		}
		t.j.mu.Lock()
		t.j.pathsByKind["split"]++
		t.j.outstanding--
		t.j.mu.Unlock()
		return
	}
	for _, p := range ex.pending {
		d.push(task{j: t.j, prefix: p})
	}
	j := t.j
	j.mu.Lock()
	j.paths++
	j.steps += ex.steps
	j.pathsByKind[kind]++
	if len(ex.trace) > j.maxDepth {
		j.maxDepth = len(ex.trace)
	}
	j.violations = append(j.violations, ex.violations...)
	j.inconclusive = append(j.inconclusive, ex.inconclusive...)
	for k, v := range ex.discharged {
		j.discharged[k] += v
	}
	for k, v := range ex.reached {
		j.reached[k] += v
	}
	for k := range ex.covers {
		j.covers[k] = true
	}
	for k := range ex.assumptions {
		j.assumptions[k] = true
	}
	j.outstanding--
	j.mu.Unlock()
	d.mu.Lock()
	for f := range ex.fnsEntered {
		d.fns[f] = true
	}
	d.mu.Unlock()
	if d.rc.verbose {
		fmt.Fprintf(os.Stderr, "  path %s %v -> %s (%d steps, %d new)\n", j.label(), t.prefix, kind, ex.steps, len(ex.pending))
		for _, in := range ex.inconclusive {
			fmt.Fprintf(os.Stderr, "    inconclusive: %s: %s\n", in.Where, in.Reason)
		}
	}
}

func firstLines(s string, n int) string {
	lines := strings.Split(s, "\n")
	if len(lines) > n {
		lines = lines[:n]
	}
	return strings.Join(lines, "\n")
}

// ---------- known findings

type knownFinding struct {
	Property  string `json:"property"`
	Harness   string `json:"harness"`
	Assertion string `json:"assertion"`
	Site      string `json:"site,omitempty"`   // substring of the violation site / stack
	Split     string `json:"split,omitempty"`  // substring of the job label
	What      string `json:"what"`
	Witness   string `json:"witness,omitempty"`
	Status    string `json:"status"` // open | fixed
	Commit    string `json:"commit,omitempty"`
}

func loadKnownFindings() []knownFinding {
	f, err := os.Open(filepath.Join(verifDir, "known_findings.jsonl"))
	if err != nil {
		return nil
	}
	defer f.Close()
	var out []knownFinding
	sc := bufio.NewScanner(f)
	sc.Buffer(make([]byte, 1<<20), 1<<20)
	for sc.Scan() {
		line := strings.TrimSpace(sc.Text())
		if line == "" || strings.HasPrefix(line, "#") {
			continue
		}
		var k knownFinding
		if err := json.Unmarshal([]byte(line), &k); err == nil {
			out = append(out, k)
		}
	}
	return out
}

func (k *knownFinding) matches(prop string, v *Violation) bool {
	if k.Status != "open" || k.Property != prop {
		return false
	}
	base := v.Harness
	if i := strings.Index(base, "["); i >= 0 {
		base = base[:i]
	}
	if k.Harness != base || k.Assertion != v.Assertion {
		return false
	}
	if k.Split != "" && !strings.Contains(v.Harness, k.Split) {
		return false
	}
	if k.Site != "" {
		hay := v.Site + " " + strings.Join(v.Stack, " ") + " " + v.Msg
		for mk, mv := range v.Model {
			if strings.HasPrefix(mk, "note:") {
				hay += " " + mk + ":" + mv
			}
		}
		for _, part := range strings.Split(k.Site, " && ") {
			if !strings.Contains(hay, part) {
				return false
			}
		}
	}
	return true
}

// ---------- property run

type replayFile struct {
	Harness string            `json:"harness"`
	Pkg     string            `json:"pkg"`
	Values  map[string]string `json:"values"`
	Splits  map[string]int    `json:"splits"`
	Tier    int               `json:"tier"`
	// informational
	Property  string `json:"property"`
	Assertion string `json:"assertion"`
	Kind      string `json:"kind"`
	Msg       string `json:"msg"`
	Site      string `json:"site"`
	Stack     []string `json:"stack,omitempty"`
	Sched     []int    `json:"sched,omitempty"`
}

func signedOf(kind, v string) string {
	bi, ok := new(big.Int).SetString(v, 10)
	if !ok {
		return v
	}
	w := 0
	switch kind {
	case "int8":
		w = 8
	case "int16":
		w = 16
	case "int32":
		w = 32
	case "int", "int64":
		w = 64
	}
	if strings.HasPrefix(kind, "bigbv:") {
		fmt.Sscanf(kind[6:], "%d", &w)
	}
	if w > 0 && bi.Sign() >= 0 && bi.Bit(w-1) == 1 {
		bi.Sub(bi, new(big.Int).Lsh(big.NewInt(1), uint(w)))
	}
	return bi.String()
}

func runProperty(rc *runConfig) int {
	t0 := time.Now()
	hs, err := prepareHarness(rc.prop, nil)
	if err != nil {
		fmt.Fprintln(os.Stderr, "prepare:", err)
		return 2
	}
	defer hs.cleanup()
	if len(hs.pkgDirs) == 0 {
		fmt.Fprintf(os.Stderr, "no harness for %s\n", rc.prop)
		return 2
	}
	P, err := loadProgram(hs)
	if err != nil {
		fmt.Fprintln(os.Stderr, "BUILD-FAILURE:", err)
		return 2
	}
	loadS := time.Since(t0).Seconds()
	snap := buildSnapshot(P, rc.verbose, false)
	snapInt := buildSnapshot(P, rc.verbose, true)
	d := &driver{rc: rc, P: P, snap: snap, snapInt: snapInt, fns: map[*ssa.Function]bool{}, deadline: time.Now().Add(rc.timeout)}
	d.cond = sync.NewCond(&d.mu)
	var only *regexp.Regexp
	if rc.only != "" {
		only = regexp.MustCompile(rc.only)
	}
	names := []string{}
	for name := range hs.funcs {
		if strings.HasPrefix(name, "VX_"+rc.prop+"_") && (only == nil || only.MatchString(name)) {
			names = append(names, name)
		}
	}
	sort.Strings(names)
	for _, name := range names {
		fn := P.findHarness(name)
		if fn == nil {
			fmt.Fprintf(os.Stderr, "harness %s not found in SSA\n", name)
			return 2
		}
		d.addJob(name, fn, map[string]int{})
	}
	var wg sync.WaitGroup
	for i := 0; i < rc.workers; i++ {
		wg.Add(1)
		go func(id int) {
			defer wg.Done()
			d.worker(id)
		}(i)
	}
	wg.Wait()
	exploreS := time.Since(t0).Seconds() - loadS

	// ----- collect
	known := loadKnownFindings()
	type distinct struct {
		v     Violation
		count int
		known *knownFinding
		replayPath string
		confirmed  string
	}
	var dvs []*distinct
	seen := map[string]*distinct{}
	totalPaths, totalSteps := 0, 0
	var inconcl []Inconclusive
	reached, discharged := map[string]int{}, map[string]int{}
	assumptions := map[string]bool{}
	var vacuous []string
	pathKinds := map[string]int{}
	sort.Slice(d.jobs, func(a, b int) bool { return d.jobs[a].label() < d.jobs[b].label() })
	for _, j := range d.jobs {
		totalPaths += j.paths
		totalSteps += j.steps
		for k, v := range j.pathsByKind {
			pathKinds[k] += v
		}
		inconcl = append(inconcl, j.inconclusive...)
		if j.outstanding > 0 && !d.timedOut {
			inconcl = append(inconcl, Inconclusive{Harness: j.label(), Where: "exploration", Reason: fmt.Sprintf("%d tasks never ran", j.outstanding)})
		}
		for k, v := range j.reached {
			reached[j.harness+"/"+k] += v
		}
		for k, v := range j.discharged {
			discharged[j.harness+"/"+k] += v
		}
		for k := range j.assumptions {
			assumptions[k] = true
		}
		for _, v := range j.violations {
			key := v.Harness + "|" + v.Assertion + "|" + v.Kind + "|" + v.Site
			if e, ok := seen[key]; ok {
				e.count++
				continue
			}
			e := &distinct{v: v, count: 1}
			seen[key] = e
			dvs = append(dvs, e)
		}
	}
	// vacuity: a harness (all its jobs together) that reached no assertion and completed no path
	byHarness := map[string][]*job{}
	for _, j := range d.jobs {
		byHarness[j.harness] = append(byHarness[j.harness], j)
	}
	for _, name := range sortedKeys(byHarness) {
		completed, nreached := 0, 0
		for _, j := range byHarness[name] {
			completed += j.pathsByKind["completed"] + j.pathsByKind["done"] + j.pathsByKind["panic"] + j.pathsByKind["expected-panic"]
			for _, v := range j.reached {
				nreached += v
			}
			nreached += len(j.violations)
		}
		if completed == 0 || nreached == 0 {
			vacuous = append(vacuous, name)
			inconcl = append(inconcl, Inconclusive{Harness: name, Where: "harness", Reason: fmt.Sprintf("vacuous: %d completed paths, %d assertions reached", completed, nreached)})
		}
	}

	// ----- replay
	replayDir := filepath.Join(verifDir, "evidence", "replay")
	os.MkdirAll(replayDir, 0755)
	old, _ := filepath.Glob(filepath.Join(replayDir, rc.prop+"-*.json"))
	for _, f := range old {
		os.Remove(f)
	}
	sort.Slice(dvs, func(a, b int) bool {
		if dvs[a].v.Harness != dvs[b].v.Harness {
			return dvs[a].v.Harness < dvs[b].v.Harness
		}
		return dvs[a].v.Assertion+dvs[a].v.Site < dvs[b].v.Assertion+dvs[b].v.Site
	})
	var toReplay []*distinct
	var inherit []*distinct
	knownReps := map[*knownFinding][]*distinct{}
	for i, e := range dvs {
		for k := range known {
			if known[k].matches(rc.prop, &e.v) {
				e.known = &known[k]
				break
			}
		}
		base := e.v.Harness
		if b := strings.Index(base, "["); b >= 0 {
			base = base[:b]
		}
		rf := replayFile{Harness: base, Pkg: hs.funcs[base], Values: map[string]string{}, Splits: e.v.Split, Tier: tierNum(rc.tier), Property: rc.prop, Assertion: e.v.Assertion, Kind: e.v.Kind, Msg: e.v.Msg, Site: e.v.Site, Stack: e.v.Stack, Sched: e.v.Sched}
		for name, val := range e.v.Model {
			rf.Values[name] = signedOf(e.v.Kinds[name], val)
		}
		e.replayPath = filepath.Join(replayDir, fmt.Sprintf("%s-%s-%d.json", rc.prop, base, i))
		writeJSON(e.replayPath, rf)
		if e.known != nil {
			// one native replay per known-finding record (up to 3 representatives); the
			// other violations matching the same record inherit its verdict
			if len(knownReps[e.known]) >= 3 {
				inherit = append(inherit, e)
				continue
			}
			knownReps[e.known] = append(knownReps[e.known], e)
		}
		toReplay = append(toReplay, e)
	}
	replayS := 0.0
	nReplayed := 0
	if !rc.noReplay && len(toReplay) > 0 {
		tr := time.Now()
		byPkg := map[string][]*distinct{}
		for _, e := range toReplay {
			byPkg[hs.funcs[baseName(e.v.Harness)]] = append(byPkg[hs.funcs[baseName(e.v.Harness)]], e)
		}
		for _, pkg := range sortedKeys(byPkg) {
			var files []string
			for _, e := range byPkg[pkg] {
				files = append(files, e.replayPath)
			}
			res := nativeReplay(P, hs, pkg, files, rc.verbose)
			for _, e := range byPkg[pkg] {
				e.confirmed = res[e.replayPath]
				nReplayed++
			}
		}
		replayS = time.Since(tr).Seconds()
		for _, e := range inherit {
			e.confirmed = "not-replayed(representatives of the known finding did not confirm)"
			for _, rep := range knownReps[e.known] {
				if rep.confirmed == "confirmed" {
					e.confirmed = "confirmed"
				}
			}
		}
	}

	// ----- verdict
	exit := 0
	nViol, nKnown := 0, 0
	var samples []interface{}
	knownHit := []string{}
	knownPrinted := map[string]bool{}
	for _, e := range dvs {
		status := e.confirmed
		if rc.noReplay {
			status = "not-replayed"
		}
		line := fmt.Sprintf("%s/%s [%s] %s at %s (x%d paths) replay=%s", e.v.Harness, e.v.Assertion, e.v.Kind, e.v.Msg, e.v.Site, e.count, status)
		switch {
		case status == "confirmed" && e.known != nil:
			nKnown++
			line := fmt.Sprintf("KNOWN-FINDING: property=%s %s/%s %s: %s", rc.prop, baseName(e.v.Harness), e.v.Assertion, e.known.Site, e.known.What)
			if !knownPrinted[line] {
				knownPrinted[line] = true
				fmt.Println(line)
				knownHit = append(knownHit, baseName(e.v.Harness)+"/"+e.v.Assertion+" "+e.known.What)
			}
		case status == "confirmed":
			nViol++
			exit = 1
			fmt.Printf("VIOLATION property=%s replay=%s\n", rc.prop, e.replayPath)
			fmt.Printf("  %s\n  model: %v\n", line, e.v.Model)
		default:
			inconcl = append(inconcl, Inconclusive{Harness: e.v.Harness, Where: e.v.Assertion + " at " + e.v.Site, Reason: "counterexample did not replay natively (" + status + "): model or stub imprecision; " + e.v.Msg})
			if rc.verbose || true {
				fmt.Fprintf(os.Stderr, "non-replaying counterexample: %s\n  model: %v\n", line, e.v.Model)
			}
		}
		if len(samples) < 6 {
			samples = append(samples, map[string]interface{}{"harness": e.v.Harness, "assertion": e.v.Assertion, "verdict": "violated:" + status, "model": e.v.Model, "site": e.v.Site})
		}
	}
	// open known findings that did not fire are reported (not an error)
	for _, in := range inconcl {
		fmt.Printf("INCONCLUSIVE property=%s %s %s: %s\n", rc.prop, in.Harness, in.Where, firstLines(in.Reason, 3))
	}
	nOblig, nDis := 0, 0
	for _, k := range sortedKeys(reached) {
		nOblig += reached[k]
		nDis += discharged[k]
		if len(samples) < 12 {
			samples = append(samples, map[string]interface{}{"obligation": k, "paths_reaching": reached[k], "discharged_unsat": discharged[k]})
		}
	}
	var fnList []string
	for f := range d.fns {
		pos := ""
		if f.Pos().IsValid() {
			p := P.Fset.Position(f.Pos())
			pos = fmt.Sprintf(" %s:%d", trimRepo(p.Filename), p.Line)
		}
		n := 0
		for _, b := range f.Blocks {
			n += len(b.Instrs)
		}
		fnList = append(fnList, fmt.Sprintf("%s%s (%d instrs)", f.String(), pos, n))
	}
	sort.Strings(fnList)
	var inconclStr []string
	for _, in := range inconcl {
		inconclStr = append(inconclStr, in.Harness+" "+in.Where+": "+firstLines(in.Reason, 2))
	}
	if len(samples) == 0 {
		samples = append(samples, map[string]interface{}{"note": "no obligations reached"})
	}
	jobLabels := []string{}
	for _, j := range d.jobs {
		if j.paths > 0 {
			jobLabels = append(jobLabels, fmt.Sprintf("%s: %d paths, depth<=%d", j.label(), j.paths, j.maxDepth))
		}
	}
	ev := map[string]interface{}{
		"property_id": rc.prop,
		"tier":        rc.tier,
		"seed":        seedOf(),
		"level":       "model_checking",
		"coverage": map[string]interface{}{
			"states":                        maxInt(totalPaths, 0),
			"transitions":                   totalSteps,
			"traces_validated_against_impl": nReplayed,
			"samples":                       samples,
			"obligations":                   nOblig,
			"discharged":                    nDis,
			"explanation":                   "states = symbolic paths explored to completion (each path is a set of inputs described by its path condition, decided by the SMT solver); transitions = go/ssa instructions executed symbolically; obligations = (assertion, path) pairs; discharged = pairs whose negation is unsat under the full path condition",
			"functions_encoded":             fnList,
			"functions_encoded_count":       len(fnList),
			"jobs":                          jobLabels,
			"path_outcomes":                 pathKinds,
			"queries":                       map[string]int{"sat": d.stats.Sat, "unsat": d.stats.Unsat, "unknown": d.stats.Unknown, "errors": d.stats.Errors},
			"solver":                        map[string]interface{}{"name": rc.solver, "seconds": round2(d.stats.Seconds), "slowest_query_ms": round2(d.stats.SlowestMs), "per_query_timeout_ms": rc.solverMs},
			"inconclusive":                  inconclStr,
			"known_findings_hit":            knownHit,
			"vacuous_harnesses":             vacuous,
			"phases_s":                      map[string]float64{"load_ssa": round2(loadS), "explore": round2(exploreS), "replay": round2(replayS)},
			"exhaustive":                    false,
		},
		"assumptions": sortedKeys(assumptions),
		"wall_s":      round2(time.Since(t0).Seconds()),
		"violations":  nViol,
	}
	if err := writeJSON(filepath.Join(verifDir, "evidence", rc.prop+".json"), ev); err != nil {
		fmt.Fprintln(os.Stderr, "evidence:", err)
	}
	fmt.Printf("SUMMARY property=%s tier=%s harnesses=%d jobs=%d paths=%d steps=%d obligations=%d discharged=%d violations=%d known=%d inconclusive=%d queries(sat/unsat/unknown)=%d/%d/%d solver_s=%.1f wall_s=%.1f\n",
		rc.prop, rc.tier, len(names), len(d.jobs), totalPaths, totalSteps, nOblig, nDis, nViol, nKnown, len(inconcl), d.stats.Sat, d.stats.Unsat, d.stats.Unknown, d.stats.Seconds, time.Since(t0).Seconds())
	return exit
}

func baseName(h string) string {
	if i := strings.Index(h, "["); i >= 0 {
		return h[:i]
	}
	return h
}

func maxInt(a, b int) int {
	if a > b {
		return a
	}
	return b
}

func round2(f float64) float64 { return float64(int(f*100+0.5)) / 100 }
