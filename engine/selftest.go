package main

func cmdSelftest(args []string) int {
	return 0
}
