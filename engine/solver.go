package main

// Long-lived SMT solver process (z3 -in / cvc5 --incremental) with push/pop.

import (
	"bufio"
	"fmt"
	"io"
	"math/big"
	"os"
	"os/exec"
	"strings"
	"time"
)

type SolverStats struct {
	Sat, Unsat, Unknown int
	Errors              int
	Seconds             float64
	SlowestMs           float64
}

type Solver struct {
	name     string
	cmd      *exec.Cmd
	in       io.WriteCloser
	out      *bufio.Reader
	ts       *TermStore
	declared map[string]bool
	level    int
	Stats    SolverStats
	timeout  int // ms per query
	log      io.Writer
	dead     bool
}

func solverCommand(kind string, timeoutMs int) (string, []string) {
	switch kind {
	case "z3":
		return "z3", []string{"-in", fmt.Sprintf("-t:%d", timeoutMs)}
	case "z3-new":
		return "z3-new", []string{"-in", fmt.Sprintf("-t:%d", timeoutMs)}
	case "cvc5":
		return "cvc5", []string{"--incremental", "--lang=smt2", "--global-declarations", "--produce-models", fmt.Sprintf("--tlimit-per=%d", timeoutMs)}
	}
	panic("unknown solver " + kind)
}

func NewSolver(kind string, ts *TermStore, timeoutMs int) (*Solver, error) {
	bin, args := solverCommand(kind, timeoutMs)
	cmd := exec.Command(bin, args...)
	in, err := cmd.StdinPipe()
	if err != nil {
		return nil, err
	}
	outp, err := cmd.StdoutPipe()
	if err != nil {
		return nil, err
	}
	cmd.Stderr = os.Stderr
	if err := cmd.Start(); err != nil {
		return nil, err
	}
	s := &Solver{name: kind, cmd: cmd, in: in, out: bufio.NewReaderSize(outp, 1<<20), ts: ts, declared: map[string]bool{}, timeout: timeoutMs}
	if p := os.Getenv("VX_SMTLOG"); p != "" {
		f, _ := os.OpenFile(p, os.O_CREATE|os.O_WRONLY|os.O_APPEND, 0644)
		s.log = f
	}
	if kind != "cvc5" {
		s.send("(set-option :global-declarations true)")
		s.send("(set-option :produce-models true)")
	} else {
		s.send("(set-logic ALL)")
	}
	return s, nil
}

func (s *Solver) send(line string) {
	if s.log != nil {
		fmt.Fprintln(s.log, line)
	}
	if _, err := io.WriteString(s.in, line+"\n"); err != nil {
		s.dead = true
	}
}

func (s *Solver) Close() {
	if s.cmd != nil {
		s.send("(exit)")
		s.in.Close()
		done := make(chan struct{})
		go func() { s.cmd.Wait(); close(done) }()
		select {
		case <-done:
		case <-time.After(2 * time.Second):
			s.cmd.Process.Kill()
		}
	}
}

func (s *Solver) declareFor(t *Term) {
	vars := map[string]*Term{}
	s.ts.Vars(t, vars)
	for _, n := range sortedKeys(vars) {
		if !s.declared[n] {
			s.declared[n] = true
			s.send(fmt.Sprintf("(declare-const %s %s)", smtName(n), vars[n].Sort))
		}
	}
	ufs := map[string]bool{}
	s.ts.UFsOf(t, ufs)
	for _, n := range sortedKeys(ufs) {
		if !s.declared["uf:"+n] {
			s.declared["uf:"+n] = true
			s.send(fmt.Sprintf("(declare-fun %s %s)", smtName(n), s.ts.UFs[n]))
		}
	}
}

func (s *Solver) Push() { s.level++; s.send("(push 1)") }
func (s *Solver) Pop() {
	if s.level > 0 {
		s.level--
		s.send("(pop 1)")
	}
}
func (s *Solver) PopAll() {
	for s.level > 0 {
		s.Pop()
	}
}

func (s *Solver) Assert(t *Term) {
	if t.IsTrue() {
		return
	}
	s.declareFor(t)
	s.send("(assert " + s.ts.SMT(t) + ")")
}

// readResponse reads one s-expression or atom response.
func (s *Solver) readResponse() (string, error) {
	var sb strings.Builder
	depth := 0
	started := false
	inBar := false
	inStr := false
	for {
		c, err := s.out.ReadByte()
		if err != nil {
			s.dead = true
			return sb.String(), err
		}
		if !started {
			if c == ' ' || c == '\n' || c == '\r' || c == '\t' {
				continue
			}
			started = true
		}
		sb.WriteByte(c)
		switch {
		case inBar:
			if c == '|' {
				inBar = false
			}
		case inStr:
			if c == '"' {
				inStr = false
			}
		case c == '|':
			inBar = true
		case c == '"':
			inStr = true
		case c == '(':
			depth++
		case c == ')':
			depth--
			if depth == 0 {
				return sb.String(), nil
			}
		case c == '\n':
			if depth == 0 {
				return strings.TrimSpace(sb.String()), nil
			}
		}
	}
}

// Check returns "sat", "unsat" or "unknown" for the current assertions plus extra.
func (s *Solver) Check(extra *Term) string {
	if s.dead {
		s.Stats.Unknown++
		return "unknown"
	}
	t0 := time.Now()
	pushed := false
	if extra != nil && !extra.IsTrue() {
		if extra.IsFalse() {
			s.Stats.Unsat++
			return "unsat"
		}
		s.Push()
		pushed = true
		s.Assert(extra)
	}
	s.send("(check-sat)")
	resp, err := s.readResponse()
	for err == nil && strings.HasPrefix(resp, "(error") {
		// an error line precedes the verdict: the verdict is not to be trusted
		s.Stats.Errors++
		fmt.Fprintf(os.Stderr, "solver error: %s\n", resp)
		resp2, err2 := s.readResponse()
		_ = resp2
		err = err2
		resp = "unknown"
		break
	}
	if pushed {
		s.Pop()
	}
	ms := float64(time.Since(t0).Microseconds()) / 1000
	s.Stats.Seconds += ms / 1000
	if ms > s.Stats.SlowestMs {
		s.Stats.SlowestMs = ms
	}
	if err != nil {
		s.Stats.Unknown++
		return "unknown"
	}
	switch resp {
	case "sat":
		s.Stats.Sat++
	case "unsat":
		s.Stats.Unsat++
	default:
		s.Stats.Unknown++
		resp = "unknown"
	}
	return resp
}

// Model checks pc ∧ extra and, when sat, returns values for the given variables.
// The values are returned as decimal strings (BV unsigned, Int signed, Bool 0/1,
// FP as its IEEE bit pattern in decimal).
func (s *Solver) Model(extra *Term, vars []*Term) (string, map[string]string) {
	if s.dead {
		return "unknown", nil
	}
	s.Push()
	defer s.Pop()
	if extra != nil {
		s.Assert(extra)
	}
	for _, v := range vars {
		s.declareFor(v)
	}
	s.send("(check-sat)")
	resp, err := s.readResponse()
	if err != nil || resp != "sat" {
		if resp == "unsat" {
			s.Stats.Unsat++
			return "unsat", nil
		}
		s.Stats.Unknown++
		return "unknown", nil
	}
	s.Stats.Sat++
	out := map[string]string{}
	for _, v := range vars {
		q := smtName(v.Name)
		if v.Sort.K == SFP32 || v.Sort.K == SFP64 {
			q = "(fp.to_ieee_bv " + q + ")"
		}
		s.send("(get-value (" + q + "))")
		r, err := s.readResponse()
		if err != nil {
			return "unknown", nil
		}
		val, ok := parseGetValue(r)
		if !ok {
			fmt.Fprintf(os.Stderr, "cannot parse model value %q\n", r)
			continue
		}
		out[v.Name] = val
	}
	return "sat", out
}

// parseGetValue parses "((name value))" and returns the value as a decimal string.
func parseGetValue(r string) (string, bool) {
	r = strings.TrimSpace(r)
	if !strings.HasPrefix(r, "((") {
		return "", false
	}
	r = r[2 : len(r)-2]
	// skip the name (may be |quoted| or an expression)
	i := 0
	if r[0] == '|' {
		i = strings.Index(r[1:], "|") + 2
	} else if r[0] == '(' {
		d := 0
		for j, c := range r {
			if c == '(' {
				d++
			} else if c == ')' {
				d--
				if d == 0 {
					i = j + 1
					break
				}
			}
		}
	} else {
		i = strings.IndexAny(r, " \t\n")
	}
	v := strings.TrimSpace(r[i:])
	return parseSMTValue(v)
}

func parseSMTValue(v string) (string, bool) {
	switch {
	case v == "true":
		return "1", true
	case v == "false":
		return "0", true
	case strings.HasPrefix(v, "#x"):
		n, ok := new(big.Int).SetString(v[2:], 16)
		if !ok {
			return "", false
		}
		return n.String(), true
	case strings.HasPrefix(v, "#b"):
		n, ok := new(big.Int).SetString(v[2:], 2)
		if !ok {
			return "", false
		}
		return n.String(), true
	case strings.HasPrefix(v, "(- "):
		inner := strings.TrimSpace(v[3 : len(v)-1])
		n, ok := new(big.Int).SetString(inner, 10)
		if !ok {
			return "", false
		}
		return n.Neg(n).String(), true
	case strings.HasPrefix(v, "(_ bv"):
		f := strings.Fields(v[5 : len(v)-1])
		n, ok := new(big.Int).SetString(f[0], 10)
		if !ok {
			return "", false
		}
		return n.String(), true
	default:
		n, ok := new(big.Int).SetString(v, 10)
		if !ok {
			return "", false
		}
		return n.String(), true
	}
}

// ResetFor clears all solver state and binds the solver to a fresh term store.
func (s *Solver) ResetFor(ts *TermStore) {
	s.ts = ts
	s.level = 0
	s.declared = map[string]bool{}
	s.send("(reset)")
	if s.name != "cvc5" {
		s.send("(set-option :global-declarations true)")
		s.send("(set-option :produce-models true)")
	} else {
		s.send("(set-logic ALL)")
	}
}

// EvalTerm checks pc ∧ extra and returns the model value of t as a decimal string.
func (s *Solver) EvalTerm(extra *Term, t *Term) (string, string) {
	if s.dead {
		return "unknown", ""
	}
	s.Push()
	defer s.Pop()
	if extra != nil {
		s.Assert(extra)
	}
	s.declareFor(t)
	s.send("(check-sat)")
	resp, err := s.readResponse()
	if err != nil || resp != "sat" {
		if resp == "unsat" {
			s.Stats.Unsat++
			return "unsat", ""
		}
		s.Stats.Unknown++
		return "unknown", ""
	}
	s.Stats.Sat++
	s.send("(get-value (" + s.ts.SMT(t) + "))")
	r, err := s.readResponse()
	if err != nil {
		return "unknown", ""
	}
	v, ok := parseGetValue(r)
	if !ok {
		return "unknown", ""
	}
	return "sat", v
}
