package main

import (
	_ "golang.org/x/tools/go/packages"
	_ "golang.org/x/tools/go/ssa"
	_ "golang.org/x/tools/go/ssa/ssautil"
)
