package main

// cespare/xxhash: a Digest records the written byte sequence; Sum64 is an uninterpreted
// function of that sequence (one function symbol per sequence shape). Equal sequences
// give equal hashes; nothing else is assumed about the hash.

import (
	"fmt"
	"go/types"
	"strings"

	"golang.org/x/tools/go/ssa"
)

type HashState struct{ Elems []Value } // immutable; elements are *Term (bytes) or BigBytesV

func (ex *Exec) hashStateOf(p Value, site ssa.Instruction) (Pointer, HashState) {
	ptr, ok := p.(Pointer)
	if !ok || ptr.Obj == nil {
		ex.goPanicRuntime("nil xxhash.Digest", ex.posOf(site))
	}
	v, _ := ex.memGet(ptr.Obj)
	hs, ok := v.(HashState)
	if !ok {
		return ptr, HashState{}
	}
	return ptr, hs
}

func (ex *Exec) hashSum(hs HashState) *Term {
	var args []*Term
	var shape strings.Builder
	for _, e := range hs.Elems {
		switch x := e.(type) {
		case *Term:
			args = append(args, x)
		case BigBytesV:
			args = append(args, x.T)
		default:
			ex.unsupported("xxhash over %T", e)
		}
	}
	if ex.hashBits > 0 {
		args = coalesceLE64(args)
	}
	for _, a := range args {
		if a.Sort.K == SInt {
			shape.WriteString("i")
		} else {
			fmt.Fprintf(&shape, "b%d.", a.Sort.W)
		}
	}
	ret := BV(64)
	if ex.intMode {
		ret = IntSort
	}
	name := fmt.Sprintf("xxh64[%d:%s]", len(args), shape.String())
	if ex.hashBits > 0 && !ex.intMode {
		// bounded hash model: the hash ranges over [0, 2^hashBits)
		nb := BV(ex.hashBits)
		name = fmt.Sprintf("%s/%d", name, ex.hashBits)
		if len(args) == 0 {
			return ex.ts.ZeroExt(ex.ts.Var(name, nb), 64)
		}
		return ex.ts.ZeroExt(ex.ts.UF(name, nb, args...), 64)
	}
	if len(args) == 0 {
		return ex.ts.Var(name, ret)
	}
	return ex.ts.UF(name, ret, args...)
}

func init() {
	const pkg = "github.com/cespare/xxhash/v2"
	registerIntrinsic(pkg+".New", func(ex *Exec, fr *Frame, fn *ssa.Function, a []Value, site ssa.Instruction) Value {
		rt := fn.Signature.Results().At(0).Type().(*types.Pointer).Elem()
		o := ex.newObjectWith(rt, "xxhash.Digest", HashState{})
		return Pointer{Obj: o}
	})
	write := func(ex *Exec, d Value, elems []Value, site ssa.Instruction) Value {
		ptr, hs := ex.hashStateOf(d, site)
		ne := make([]Value, 0, len(hs.Elems)+len(elems))
		ne = append(ne, hs.Elems...)
		ne = append(ne, elems...)
		ex.memSet(ptr.Obj, HashState{Elems: ne})
		return TupleV{ex.goInt(int64(len(elems))), IfaceV{}}
	}
	registerIntrinsic("(*"+pkg+".Digest).Write", func(ex *Exec, fr *Frame, fn *ssa.Function, a []Value, site ssa.Instruction) Value {
		return write(ex, a[0], ex.sliceElems(a[1].(SliceV)), site)
	})
	registerIntrinsic("(*"+pkg+".Digest).WriteString", func(ex *Exec, fr *Frame, fn *ssa.Function, a []Value, site ssa.Instruction) Value {
		s := a[1].(StringV)
		elems := make([]Value, len(s.B))
		for i, b := range s.B {
			elems[i] = b
		}
		return write(ex, a[0], elems, site)
	})
	registerIntrinsic("(*"+pkg+".Digest).Reset", func(ex *Exec, fr *Frame, fn *ssa.Function, a []Value, site ssa.Instruction) Value {
		ptr, _ := ex.hashStateOf(a[0], site)
		ex.memSet(ptr.Obj, HashState{})
		return nil
	})
	registerIntrinsic("(*"+pkg+".Digest).Sum64", func(ex *Exec, fr *Frame, fn *ssa.Function, a []Value, site ssa.Instruction) Value {
		_, hs := ex.hashStateOf(a[0], site)
		return ex.hashSum(hs)
	})
	registerIntrinsic(pkg+".Sum64", func(ex *Exec, fr *Frame, fn *ssa.Function, a []Value, site ssa.Instruction) Value {
		return ex.hashSum(HashState{Elems: ex.sliceElems(a[0].(SliceV))})
	})
	registerIntrinsic(pkg+".Sum64String", func(ex *Exec, fr *Frame, fn *ssa.Function, a []Value, site ssa.Instruction) Value {
		s := a[0].(StringV)
		elems := make([]Value, len(s.B))
		for i, b := range s.B {
			elems[i] = b
		}
		return ex.hashSum(HashState{Elems: elems})
	})
}

func init() {
	// vxHashBits(n): xxhash results range over [0, 2^n) (a stated bound of the harness)
	vxAPI["vxHashBits"] = func(ex *Exec, fr *Frame, fn *ssa.Function, args []Value, site ssa.Instruction) Value {
		ex.hashBits = argInt(ex, args[0])
		ex.assumptions[fmt.Sprintf("hash values range over [0, 2^%d): every joint residue pattern modulo the table capacities in the bound is represented", ex.hashBits)] = true
		return nil
	}
	// vxKeyInt64(name, hash, mods...): a symbolic int64 key; the hash the model assigns to it is
	// recorded as input "hash:<name>" so that native replay can pick a concrete key whose real
	// hash has the same residues modulo mods
	vxAPI["vxKeyInt64"] = func(ex *Exec, fr *Frame, fn *ssa.Function, args []Value, site ssa.Instruction) Value {
		name := argString(ex, args[0])
		k := ex.inputInt(name, "int64", intInfo{64, true})
		h := ex.callValue(fr, args[1], []Value{k}, site)
		ht, ok := h.(*Term)
		if !ok {
			ex.unsupported("vxKeyInt64: hash callback did not return an integer")
		}
		hv := ex.ts.Var("in:hash:"+name, ht.Sort)
		ex.declareInput("hash:"+name, "uint64", hv)
		ex.assertPC(ex.ts.Eq(hv, ht))
		return k
	}
}

// coalesceLE64 replaces eight consecutive bytes that are the little-endian bytes of one 64-bit
// term by that term (a bijective re-encoding of the hashed sequence: equal sequences still
// correspond to equal argument lists and vice versa).
func coalesceLE64(args []*Term) []*Term {
	var out []*Term
	for i := 0; i < len(args); {
		if i+8 <= len(args) {
			var x *Term
			ok := true
			for j := 0; j < 8 && ok; j++ {
				a := args[i+j]
				if a.Op != "extract" || a.P1 != 8*j+7 || a.P2 != 8*j || a.Args[0].Sort.W != 64 {
					ok = false
					break
				}
				if x == nil {
					x = a.Args[0]
				} else if x != a.Args[0] {
					ok = false
				}
			}
			if ok && x != nil {
				out = append(out, x)
				i += 8
				continue
			}
		}
		out = append(out, args[i])
		i++
	}
	return out
}
