package main

// cespare/xxhash: a Digest records the written byte sequence; Sum64 is an uninterpreted
// function of that sequence (one function symbol per sequence shape). Equal sequences
// give equal hashes; nothing else is assumed about the hash.

import (
	"fmt"
	"go/types"
	"strings"

	"golang.org/x/tools/go/ssa"
)

type HashState struct{ Elems []Value } // immutable; elements are *Term (bytes) or BigBytesV

func (ex *Exec) hashStateOf(p Value, site ssa.Instruction) (Pointer, HashState) {
	ptr, ok := p.(Pointer)
	if !ok || ptr.Obj == nil {
		ex.goPanicRuntime("nil xxhash.Digest", ex.posOf(site))
	}
	v, _ := ex.memGet(ptr.Obj)
	hs, ok := v.(HashState)
	if !ok {
		return ptr, HashState{}
	}
	return ptr, hs
}

func (ex *Exec) hashSum(hs HashState) *Term {
	var args []*Term
	var shape strings.Builder
	for _, e := range hs.Elems {
		switch x := e.(type) {
		case *Term:
			args = append(args, x)
		case BigBytesV:
			args = append(args, x.T)
		default:
			ex.unsupported("xxhash over %T", e)
		}
	}
	for _, a := range args {
		if a.Sort.K == SInt {
			shape.WriteString("i")
		} else {
			fmt.Fprintf(&shape, "b%d.", a.Sort.W)
		}
	}
	ret := BV(64)
	if ex.intMode {
		ret = IntSort
	}
	name := fmt.Sprintf("xxh64[%d:%s]", len(args), shape.String())
	if len(args) == 0 {
		return ex.ts.Var(name, ret)
	}
	return ex.ts.UF(name, ret, args...)
}

func init() {
	const pkg = "github.com/cespare/xxhash/v2"
	registerIntrinsic(pkg+".New", func(ex *Exec, fr *Frame, fn *ssa.Function, a []Value, site ssa.Instruction) Value {
		rt := fn.Signature.Results().At(0).Type().(*types.Pointer).Elem()
		o := ex.newObjectWith(rt, "xxhash.Digest", HashState{})
		return Pointer{Obj: o}
	})
	write := func(ex *Exec, d Value, elems []Value, site ssa.Instruction) Value {
		ptr, hs := ex.hashStateOf(d, site)
		ne := make([]Value, 0, len(hs.Elems)+len(elems))
		ne = append(ne, hs.Elems...)
		ne = append(ne, elems...)
		ex.memSet(ptr.Obj, HashState{Elems: ne})
		return TupleV{ex.goInt(int64(len(elems))), IfaceV{}}
	}
	registerIntrinsic("(*"+pkg+".Digest).Write", func(ex *Exec, fr *Frame, fn *ssa.Function, a []Value, site ssa.Instruction) Value {
		return write(ex, a[0], ex.sliceElems(a[1].(SliceV)), site)
	})
	registerIntrinsic("(*"+pkg+".Digest).WriteString", func(ex *Exec, fr *Frame, fn *ssa.Function, a []Value, site ssa.Instruction) Value {
		s := a[1].(StringV)
		elems := make([]Value, len(s.B))
		for i, b := range s.B {
			elems[i] = b
		}
		return write(ex, a[0], elems, site)
	})
	registerIntrinsic("(*"+pkg+".Digest).Reset", func(ex *Exec, fr *Frame, fn *ssa.Function, a []Value, site ssa.Instruction) Value {
		ptr, _ := ex.hashStateOf(a[0], site)
		ex.memSet(ptr.Obj, HashState{})
		return nil
	})
	registerIntrinsic("(*"+pkg+".Digest).Sum64", func(ex *Exec, fr *Frame, fn *ssa.Function, a []Value, site ssa.Instruction) Value {
		_, hs := ex.hashStateOf(a[0], site)
		return ex.hashSum(hs)
	})
	registerIntrinsic(pkg+".Sum64", func(ex *Exec, fr *Frame, fn *ssa.Function, a []Value, site ssa.Instruction) Value {
		return ex.hashSum(HashState{Elems: ex.sliceElems(a[0].(SliceV))})
	})
	registerIntrinsic(pkg+".Sum64String", func(ex *Exec, fr *Frame, fn *ssa.Function, a []Value, site ssa.Instruction) Value {
		s := a[0].(StringV)
		elems := make([]Value, len(s.B))
		for i, b := range s.B {
			elems[i] = b
		}
		return ex.hashSum(HashState{Elems: elems})
	})
}
