package main

// Model of math/big.Int: a heap cell holding a mathematical integer (int mode)
// or a wide two's complement bit-vector (bv mode, bounded, see vxBig).

import (
	"fmt"
	"go/types"
	"math/big"

	"golang.org/x/tools/go/ssa"
)

func (ex *Exec) bigOf(v Value, site ssa.Instruction) *Term {
	p, ok := v.(Pointer)
	if !ok {
		ex.unsupported("big.Int receiver is %T", v)
	}
	if p.Obj == nil {
		ex.goPanicRuntime("invalid memory address or nil pointer dereference (nil *big.Int)", ex.posOf(site))
	}
	c := ex.load(p, ex.posOf(site))
	bv, ok := c.(BigV)
	if !ok {
		panic(&GoPanic{Val: ex.runtimeErrorValue("invalid unsafe cast to *big.Int"), Msg: fmt.Sprintf("unsafe cast: %s read as *big.Int", describe(c)), Runtime: true, Fatal: true, Site: ex.posOf(site), Stack: ex.stackStrings()})
	}
	return bv.T
}

func (ex *Exec) bigSet(z Value, t *Term, site ssa.Instruction) Value {
	p := z.(Pointer)
	if p.Obj == nil {
		ex.goPanicRuntime("invalid memory address or nil pointer dereference (nil *big.Int)", ex.posOf(site))
	}
	ex.store(p, BigV{T: t}, ex.posOf(site))
	return z
}

func (ex *Exec) bigFromInt64(t *Term, signed bool) *Term {
	if ex.intMode {
		return t
	}
	if signed {
		return ex.ts.SignExt(t, ex.bigW)
	}
	return ex.ts.ZeroExt(t, ex.bigW)
}

func (ex *Exec) bigZero() *Term { return ex.bigConst(big.NewInt(0)) }

func (ex *Exec) bigCmpTerm(op string, a, b *Term) *Term {
	if ex.intMode {
		return ex.ts.IntCmp(op, a, b)
	}
	m := map[string]string{"<": "bvslt", "<=": "bvsle", ">": "bvsgt", ">=": "bvsge"}
	return ex.ts.BVCmp(m[op], a, b)
}

func (ex *Exec) bigDivZeroCheck(y *Term, site ssa.Instruction) {
	nz := ex.ts.Not(ex.ts.Eq(y, ex.bigZero()))
	if nz.IsTrue() {
		return
	}
	if nz.IsFalse() || !ex.branch(nz, "big division by zero") {
		panic(&GoPanic{Val: IfaceV{T: types.Typ[types.String], V: ex.strConst("division by zero")}, Msg: "division by zero", Site: ex.posOf(site), Stack: ex.stackStrings()})
	}
}

func (ex *Exec) bigNeg(x *Term) *Term {
	if ex.intMode {
		return ex.ts.IntNeg(x)
	}
	return ex.ts.BVNeg(x)
}

func (ex *Exec) bigAbs(x *Term) *Term {
	if ex.intMode {
		return ex.ts.IntAbs(x)
	}
	return ex.ts.Ite(ex.ts.BVCmp("bvslt", x, ex.bigZero()), ex.ts.BVNeg(x), x)
}

// bv-mode Euclidean division from truncated
func (ex *Exec) bigEuclid(x, y *Term) (q, m *Term) {
	ts := ex.ts
	if ex.intMode {
		if x.Const || y.Const {
			return ts.IntBin("div", x, y), ts.IntBin("mod", x, y)
		}
		tq, tr := ex.divWitness(x, y)
		zero := ts.IntConst64(0)
		one := ts.IntConst64(1)
		neg := ts.IntCmp("<", tr, zero)
		ypos := ts.IntCmp(">", y, zero)
		q = ts.Ite(neg, ts.Ite(ypos, ts.IntBin("-", tq, one), ts.IntBin("+", tq, one)), tq)
		m = ts.Ite(neg, ts.Ite(ypos, ts.IntBin("+", tr, y), ts.IntBin("-", tr, y)), tr)
		return
	}
	tq := ts.BVBin("bvsdiv", x, y)
	tr := ts.BVBin("bvsrem", x, y)
	neg := ts.BVCmp("bvslt", tr, ex.bigZero())
	ypos := ts.BVCmp("bvsgt", y, ex.bigZero())
	one := ex.bigConst(big.NewInt(1))
	// r<0: if y>0 {q-1, r+y} else {q+1, r-y}
	q = ts.Ite(neg, ts.Ite(ypos, ts.BVBin("bvsub", tq, one), ts.BVBin("bvadd", tq, one)), tq)
	m = ts.Ite(neg, ts.Ite(ypos, ts.BVBin("bvadd", tr, y), ts.BVBin("bvsub", tr, y)), tr)
	return
}

func (ex *Exec) bigTrunc(x, y *Term) (q, r *Term) {
	if ex.intMode {
		return ex.tdiv(x, y), ex.trem(x, y)
	}
	return ex.ts.BVBin("bvsdiv", x, y), ex.ts.BVBin("bvsrem", x, y)
}

func (ex *Exec) bigBitwise(op string, x, y *Term) *Term {
	ts := ex.ts
	if ex.intMode {
		if x.Const && y.Const {
			r := new(big.Int)
			switch op {
			case "and":
				r.And(x.B, y.B)
			case "or":
				r.Or(x.B, y.B)
			case "xor":
				r.Xor(x.B, y.B)
			case "andnot":
				r.AndNot(x.B, y.B)
			}
			return ts.IntConst(r)
		}
		ex.unsupported("big.Int bitwise %s in int mode (use bv mode)", op)
	}
	switch op {
	case "and":
		return ts.BVBin("bvand", x, y)
	case "or":
		return ts.BVBin("bvor", x, y)
	case "xor":
		return ts.BVBin("bvxor", x, y)
	case "andnot":
		return ts.BVBin("bvand", x, ts.BVNot(y))
	}
	panic("bigBitwise")
}

const bigShiftMax = 130

func (ex *Exec) bigShift(left bool, x *Term, n *Term) *Term {
	ts := ex.ts
	if ex.intMode {
		if n.Const {
			k := n.B
			if !k.IsInt64() || k.Int64() > 4096 {
				ex.unsupported("big shift by huge constant")
			}
			p := ts.IntConst(new(big.Int).Lsh(big.NewInt(1), uint(k.Int64())))
			if left {
				return ts.IntBin("*", x, p)
			}
			return ts.IntBin("div", x, p)
		}
		// stated bound: symbolic shift counts are explored up to bigShiftMax
		ex.assumptions[fmt.Sprintf("big.Int shift counts <= %d (int mode)", bigShiftMax)] = true
		ex.assume(ts.IntCmp("<=", n, ts.IntConst64(bigShiftMax)), "big shift bound")
		pow := ts.IntConst64(1)
		for k := bigShiftMax; k >= 1; k-- {
			pow = ts.Ite(ts.Eq(n, ts.IntConst64(int64(k))), ts.IntConst(new(big.Int).Lsh(big.NewInt(1), uint(k))), pow)
		}
		if left {
			return ts.IntBin("*", x, pow)
		}
		return ts.IntBin("div", x, pow)
	}
	cnt := ts.ZeroExt(n, ex.bigW)
	if left {
		r := ts.BVBin("bvshl", x, cnt)
		// stated bound: the shifted value must fit (no bits lost)
		back := ts.BVBin("bvashr", r, cnt)
		fits := ts.And(ts.Eq(back, x), ts.BVCmp("bvult", cnt, ts.BVConst(ex.bigW, uint64(ex.bigW-1))))
		if !fits.IsTrue() {
			ex.assumptions[fmt.Sprintf("big.Int left shifts whose result does not fit %d bits are outside the bound (bv mode)", ex.bigW)] = true
			ex.assume(fits, "big Lsh fits")
		}
		return r
	}
	return ts.BVBin("bvashr", x, cnt)
}

func init() {
	type H = intrinsicFn
	reg := func(name string, f H) { registerIntrinsic("(*math/big.Int)."+name, f) }

	registerIntrinsic("math/big.NewInt", func(ex *Exec, fr *Frame, fn *ssa.Function, a []Value, site ssa.Instruction) Value {
		rt := fn.Signature.Results().At(0).Type().(*types.Pointer).Elem()
		o := ex.newObjectWith(rt, "big.NewInt", BigV{T: ex.bigFromInt64(a[0].(*Term), true)})
		return Pointer{Obj: o}
	})
	bin := func(f func(ex *Exec, x, y *Term, site ssa.Instruction) *Term) H {
		return func(ex *Exec, fr *Frame, fn *ssa.Function, a []Value, site ssa.Instruction) Value {
			x, y := ex.bigOf(a[1], site), ex.bigOf(a[2], site)
			return ex.bigSet(a[0], f(ex, x, y, site), site)
		}
	}
	reg("Add", bin(func(ex *Exec, x, y *Term, _ ssa.Instruction) *Term {
		if ex.intMode {
			return ex.ts.IntBin("+", x, y)
		}
		return ex.ts.BVBin("bvadd", x, y)
	}))
	reg("Sub", bin(func(ex *Exec, x, y *Term, _ ssa.Instruction) *Term {
		if ex.intMode {
			return ex.ts.IntBin("-", x, y)
		}
		return ex.ts.BVBin("bvsub", x, y)
	}))
	reg("Mul", bin(func(ex *Exec, x, y *Term, _ ssa.Instruction) *Term {
		if ex.intMode {
			return ex.ts.IntBin("*", x, y)
		}
		if !x.Const && !y.Const {
			ex.unsupported("big.Int.Mul of two symbolic values in bv mode")
		}
		return ex.ts.BVBin("bvmul", x, y)
	}))
	reg("Div", bin(func(ex *Exec, x, y *Term, site ssa.Instruction) *Term {
		ex.bigDivZeroCheck(y, site)
		q, _ := ex.bigEuclid(x, y)
		return q
	}))
	reg("Mod", bin(func(ex *Exec, x, y *Term, site ssa.Instruction) *Term {
		ex.bigDivZeroCheck(y, site)
		_, m := ex.bigEuclid(x, y)
		return m
	}))
	reg("Quo", bin(func(ex *Exec, x, y *Term, site ssa.Instruction) *Term {
		ex.bigDivZeroCheck(y, site)
		q, _ := ex.bigTrunc(x, y)
		return q
	}))
	reg("Rem", bin(func(ex *Exec, x, y *Term, site ssa.Instruction) *Term {
		ex.bigDivZeroCheck(y, site)
		_, r := ex.bigTrunc(x, y)
		return r
	}))
	reg("And", bin(func(ex *Exec, x, y *Term, _ ssa.Instruction) *Term { return ex.bigBitwise("and", x, y) }))
	reg("Or", bin(func(ex *Exec, x, y *Term, _ ssa.Instruction) *Term { return ex.bigBitwise("or", x, y) }))
	reg("Xor", bin(func(ex *Exec, x, y *Term, _ ssa.Instruction) *Term { return ex.bigBitwise("xor", x, y) }))
	reg("AndNot", bin(func(ex *Exec, x, y *Term, _ ssa.Instruction) *Term { return ex.bigBitwise("andnot", x, y) }))
	two := func(euclid bool) H {
		return func(ex *Exec, fr *Frame, fn *ssa.Function, a []Value, site ssa.Instruction) Value {
			// z.QuoRem(x, y, r) / z.DivMod(x, y, m)
			x, y := ex.bigOf(a[1], site), ex.bigOf(a[2], site)
			ex.bigDivZeroCheck(y, site)
			var q, r *Term
			if euclid {
				q, r = ex.bigEuclid(x, y)
			} else {
				q, r = ex.bigTrunc(x, y)
			}
			ex.bigSet(a[0], q, site)
			ex.bigSet(a[3], r, site)
			return TupleV{a[0], a[3]}
		}
	}
	reg("QuoRem", two(false))
	reg("DivMod", two(true))
	un := func(f func(ex *Exec, x *Term) *Term) H {
		return func(ex *Exec, fr *Frame, fn *ssa.Function, a []Value, site ssa.Instruction) Value {
			return ex.bigSet(a[0], f(ex, ex.bigOf(a[1], site)), site)
		}
	}
	reg("Neg", un(func(ex *Exec, x *Term) *Term { return ex.bigNeg(x) }))
	reg("Abs", un(func(ex *Exec, x *Term) *Term { return ex.bigAbs(x) }))
	reg("Set", un(func(ex *Exec, x *Term) *Term { return x }))
	reg("Not", un(func(ex *Exec, x *Term) *Term {
		if ex.intMode {
			return ex.ts.IntBin("-", ex.ts.IntNeg(x), ex.ts.IntConst64(1))
		}
		return ex.ts.BVNot(x)
	}))
	reg("SetInt64", func(ex *Exec, fr *Frame, fn *ssa.Function, a []Value, site ssa.Instruction) Value {
		return ex.bigSet(a[0], ex.bigFromInt64(a[1].(*Term), true), site)
	})
	reg("SetUint64", func(ex *Exec, fr *Frame, fn *ssa.Function, a []Value, site ssa.Instruction) Value {
		return ex.bigSet(a[0], ex.bigFromInt64(a[1].(*Term), false), site)
	})
	reg("Lsh", func(ex *Exec, fr *Frame, fn *ssa.Function, a []Value, site ssa.Instruction) Value {
		return ex.bigSet(a[0], ex.bigShift(true, ex.bigOf(a[1], site), a[2].(*Term)), site)
	})
	reg("Rsh", func(ex *Exec, fr *Frame, fn *ssa.Function, a []Value, site ssa.Instruction) Value {
		return ex.bigSet(a[0], ex.bigShift(false, ex.bigOf(a[1], site), a[2].(*Term)), site)
	})
	reg("Exp", func(ex *Exec, fr *Frame, fn *ssa.Function, a []Value, site ssa.Instruction) Value {
		// z.Exp(x, y, m): only m == nil, exponent concretised over a small stated range
		if mp, ok := a[3].(Pointer); !ok || mp.Obj != nil {
			ex.unsupported("big.Int.Exp with modulus")
		}
		x, y := ex.bigOf(a[1], site), ex.bigOf(a[2], site)
		if !ex.intMode {
			ex.unsupported("big.Int.Exp in bv mode")
		}
		ts := ex.ts
		const maxExp = 3
		if !y.Const {
			ex.assumptions[fmt.Sprintf("big.Int.Exp exponents <= %d", maxExp)] = true
			ex.assume(ts.IntCmp("<=", y, ts.IntConst64(maxExp)), "Exp exponent bound")
		}
		// y <= 0 => 1
		res := ts.IntConst64(1)
		acc := ts.IntConst64(1)
		var out *Term = ts.IntConst64(1)
		for k := 1; k <= maxExp; k++ {
			acc = ts.IntBin("*", acc, x)
			out = ts.Ite(ts.Eq(y, ts.IntConst64(int64(k))), acc, out)
		}
		if y.Const {
			if y.B.Sign() <= 0 {
				out = res
			} else if y.B.Cmp(big.NewInt(64)) <= 0 && x.Const {
				out = ts.IntConst(new(big.Int).Exp(x.B, y.B, nil))
			} else if y.B.Cmp(big.NewInt(maxExp)) > 0 {
				ex.unsupported("big.Int.Exp with constant exponent %s", y.B)
			}
		}
		return ex.bigSet(a[0], out, site)
	})
	reg("Cmp", func(ex *Exec, fr *Frame, fn *ssa.Function, a []Value, site ssa.Instruction) Value {
		x, y := ex.bigOf(a[0], site), ex.bigOf(a[1], site)
		ts := ex.ts
		return ts.Ite(ex.bigCmpTerm("<", x, y), ex.goInt(-1), ts.Ite(ts.Eq(x, y), ex.goInt(0), ex.goInt(1)))
	})
	reg("CmpAbs", func(ex *Exec, fr *Frame, fn *ssa.Function, a []Value, site ssa.Instruction) Value {
		x, y := ex.bigAbs(ex.bigOf(a[0], site)), ex.bigAbs(ex.bigOf(a[1], site))
		ts := ex.ts
		return ts.Ite(ex.bigCmpTerm("<", x, y), ex.goInt(-1), ts.Ite(ts.Eq(x, y), ex.goInt(0), ex.goInt(1)))
	})
	reg("Sign", func(ex *Exec, fr *Frame, fn *ssa.Function, a []Value, site ssa.Instruction) Value {
		x := ex.bigOf(a[0], site)
		ts := ex.ts
		z := ex.bigZero()
		return ts.Ite(ex.bigCmpTerm("<", x, z), ex.goInt(-1), ts.Ite(ts.Eq(x, z), ex.goInt(0), ex.goInt(1)))
	})
	reg("IsInt64", func(ex *Exec, fr *Frame, fn *ssa.Function, a []Value, site ssa.Instruction) Value {
		x := ex.bigOf(a[0], site)
		ii := intInfo{64, true}
		return ex.ts.And(ex.bigCmpTerm(">=", x, ex.bigConst(ii.lo())), ex.bigCmpTerm("<=", x, ex.bigConst(ii.hi())))
	})
	reg("IsUint64", func(ex *Exec, fr *Frame, fn *ssa.Function, a []Value, site ssa.Instruction) Value {
		x := ex.bigOf(a[0], site)
		ii := intInfo{64, false}
		return ex.ts.And(ex.bigCmpTerm(">=", x, ex.bigConst(ii.lo())), ex.bigCmpTerm("<=", x, ex.bigConst(ii.hi())))
	})
	reg("Int64", func(ex *Exec, fr *Frame, fn *ssa.Function, a []Value, site ssa.Instruction) Value {
		x := ex.bigOf(a[0], site)
		if ex.intMode {
			return ex.wrapMod(x, intInfo{64, true})
		}
		// Go: low 64 bits of |x| with the sign applied = low 64 bits of two's complement x
		return ex.ts.Extract(63, 0, x)
	})
	reg("Uint64", func(ex *Exec, fr *Frame, fn *ssa.Function, a []Value, site ssa.Instruction) Value {
		x := ex.bigOf(a[0], site)
		if ex.intMode {
			// low 64 bits of |x|
			return ex.ts.IntBin("mod", ex.ts.IntAbs(x), ex.ts.IntConst(intInfo{64, false}.size()))
		}
		return ex.ts.Extract(63, 0, ex.bigAbs(x))
	})
	reg("Bits", func(ex *Exec, fr *Frame, fn *ssa.Function, a []Value, site ssa.Instruction) Value {
		// only len(Bits()) == 0 (zero test) is meaningful in the model: fork on zero
		x := ex.bigOf(a[0], site)
		if ex.branch(ex.ts.Eq(x, ex.bigZero()), "big.Bits zero test") {
			return SliceV{}
		}
		elem := fn.Signature.Results().At(0).Type().Underlying().(*types.Slice).Elem()
		return ex.newSlice(elem, []Value{Opaque{"big.Int word"}}, 1, "big.Bits")
	})
	reg("BitLen", func(ex *Exec, fr *Frame, fn *ssa.Function, a []Value, site ssa.Instruction) Value {
		x := ex.bigOf(a[0], site)
		if x.Const {
			return ex.goInt(int64(x.BigS().BitLen()))
		}
		// number of bits of |x|: an ite chain over the thresholds 2^k
		top := 256
		if !ex.intMode {
			top = ex.bigW - 2
		} else {
			bound := new(big.Int).Lsh(big.NewInt(1), uint(top))
			ex.assumptions[fmt.Sprintf("big.Int.BitLen: |x| < 2^%d", top)] = true
			ex.assume(ex.bigCmpTerm("<", ex.bigAbs(x), ex.bigConst(bound)), ex.posOf(site))
		}
		ax := ex.bigAbs(x)
		n := ex.goInt(0)
		for k := 0; k < top; k++ {
			n = ex.ts.Ite(ex.bigCmpTerm(">=", ax, ex.bigConst(new(big.Int).Lsh(big.NewInt(1), uint(k)))), ex.goInt(int64(k+1)), n)
		}
		return n
	})
	reg("Float64", func(ex *Exec, fr *Frame, fn *ssa.Function, a []Value, site ssa.Instruction) Value {
		x := ex.bigOf(a[0], site)
		if ex.intMode {
			ex.unsupported("big.Int.Float64 in int mode")
		}
		f := ex.ts.FPFromBV(F64Sort, x, true)
		if x.Const {
			ff, _ := new(big.Float).SetInt(x.BigS()).Float64()
			f = ex.ts.F64Const(ff)
		}
		return TupleV{f, Opaque{"big.Accuracy"}}
	})
	reg("String", func(ex *Exec, fr *Frame, fn *ssa.Function, a []Value, site ssa.Instruction) Value {
		x := ex.bigOf(a[0], site)
		if x.Const {
			return ex.strConst(x.BigS().String())
		}
		return ex.strConst("<big>")
	})
	reg("Bytes", func(ex *Exec, fr *Frame, fn *ssa.Function, a []Value, site ssa.Instruction) Value {
		x := ex.bigOf(a[0], site)
		// the big-endian magnitude; model: a 1-element opaque-tagged byte sequence that is a
		// function of the value (only used for hashing)
		return ex.newSlice(types.Typ[types.Uint8], []Value{BigBytesV{T: x}}, 1, "big.Bytes")
	})
}
