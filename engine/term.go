package main

// Hash-consed SMT term DAG with constant folding.

import (
	"fmt"
	"math"
	"math/big"
	"sort"
	"strings"
)

type SortKind uint8

const (
	SBool SortKind = iota
	SBV
	SInt
	SFP32
	SFP64
)

type Sort struct {
	K SortKind
	W int // bit width for SBV
}

var (
	BoolSort = Sort{K: SBool}
	IntSort  = Sort{K: SInt}
	F32Sort  = Sort{K: SFP32}
	F64Sort  = Sort{K: SFP64}
)

func BV(w int) Sort { return Sort{K: SBV, W: w} }

func (s Sort) String() string {
	switch s.K {
	case SBool:
		return "Bool"
	case SBV:
		return fmt.Sprintf("(_ BitVec %d)", s.W)
	case SInt:
		return "Int"
	case SFP32:
		return "(_ FloatingPoint 8 24)"
	case SFP64:
		return "(_ FloatingPoint 11 53)"
	}
	return "?"
}

type Term struct {
	Op     string
	Sort   Sort
	Args   []*Term
	Const  bool
	U      uint64   // BV<=64 value, bool (0/1), FP bit pattern
	B      *big.Int // Int constant or BV>64 constant
	Name   string   // variable / uninterpreted function name
	P1, P2 int      // extract hi/lo, extend amount
	id     int
}

type TermStore struct {
	tab    map[string]*Term
	nextID int
	// uninterpreted functions declared: name -> signature
	UFs map[string]string
}

func NewTermStore() *TermStore {
	return &TermStore{tab: map[string]*Term{}, UFs: map[string]string{}}
}

func (ts *TermStore) intern(t *Term) *Term {
	var sb strings.Builder
	sb.WriteString(t.Op)
	sb.WriteByte('|')
	fmt.Fprintf(&sb, "%d.%d|", t.Sort.K, t.Sort.W)
	if t.Const {
		if t.B != nil {
			sb.WriteString(t.B.String())
		} else {
			fmt.Fprintf(&sb, "%d", t.U)
		}
	}
	sb.WriteString(t.Name)
	if t.P1 != 0 || t.P2 != 0 {
		fmt.Fprintf(&sb, "|%d,%d", t.P1, t.P2)
	}
	for _, a := range t.Args {
		fmt.Fprintf(&sb, ",%d", a.id)
	}
	k := sb.String()
	if e, ok := ts.tab[k]; ok {
		return e
	}
	ts.nextID++
	t.id = ts.nextID
	ts.tab[k] = t
	return t
}

// ---------- constants

func mask(w int) uint64 {
	if w >= 64 {
		return ^uint64(0)
	}
	return (uint64(1) << uint(w)) - 1
}

func (ts *TermStore) True() *Term  { return ts.Bool(true) }
func (ts *TermStore) False() *Term { return ts.Bool(false) }
func (ts *TermStore) Bool(b bool) *Term {
	u := uint64(0)
	if b {
		u = 1
	}
	return ts.intern(&Term{Op: "const", Sort: BoolSort, Const: true, U: u})
}

func (ts *TermStore) BVConst(w int, v uint64) *Term {
	if w > 64 {
		return ts.BVBig(w, new(big.Int).SetUint64(v))
	}
	return ts.intern(&Term{Op: "const", Sort: BV(w), Const: true, U: v & mask(w)})
}

// signed value into w bits (w may exceed 64)
func (ts *TermStore) BVSigned(w int, v int64) *Term {
	if w <= 64 {
		return ts.BVConst(w, uint64(v))
	}
	return ts.BVBig(w, big.NewInt(v))
}

func (ts *TermStore) BVBig(w int, v *big.Int) *Term {
	m := new(big.Int).Lsh(big.NewInt(1), uint(w))
	r := new(big.Int).Mod(v, m) // Euclidean: non-negative
	if w <= 64 {
		return ts.BVConst(w, r.Uint64())
	}
	return ts.intern(&Term{Op: "const", Sort: BV(w), Const: true, B: r})
}

func (ts *TermStore) IntConst(v *big.Int) *Term {
	return ts.intern(&Term{Op: "const", Sort: IntSort, Const: true, B: new(big.Int).Set(v)})
}
func (ts *TermStore) IntConst64(v int64) *Term { return ts.IntConst(big.NewInt(v)) }

func (ts *TermStore) F64Const(f float64) *Term {
	return ts.intern(&Term{Op: "const", Sort: F64Sort, Const: true, U: math.Float64bits(f)})
}
func (ts *TermStore) F32Const(f float32) *Term {
	return ts.intern(&Term{Op: "const", Sort: F32Sort, Const: true, U: uint64(math.Float32bits(f))})
}

func (ts *TermStore) Var(name string, s Sort) *Term {
	return ts.intern(&Term{Op: "var", Sort: s, Name: name})
}

// unsigned value of a BV constant as big.Int
func (t *Term) BigU() *big.Int {
	if t.B != nil {
		return new(big.Int).Set(t.B)
	}
	return new(big.Int).SetUint64(t.U)
}

// signed value of a BV constant
func (t *Term) BigS() *big.Int {
	v := t.BigU()
	if t.Sort.K == SBV && v.Bit(t.Sort.W-1) == 1 {
		v.Sub(v, new(big.Int).Lsh(big.NewInt(1), uint(t.Sort.W)))
	}
	return v
}

func (t *Term) IsTrue() bool  { return t.Const && t.Sort.K == SBool && t.U == 1 }
func (t *Term) IsFalse() bool { return t.Const && t.Sort.K == SBool && t.U == 0 }

func (t *Term) F64() float64 { return math.Float64frombits(t.U) }
func (t *Term) F32() float32 { return math.Float32frombits(uint32(t.U)) }

// ---------- boolean ops

func (ts *TermStore) mk(op string, s Sort, args ...*Term) *Term {
	return ts.intern(&Term{Op: op, Sort: s, Args: args})
}

func (ts *TermStore) Not(a *Term) *Term {
	if a.Const {
		return ts.Bool(a.U == 0)
	}
	if a.Op == "not" {
		return a.Args[0]
	}
	return ts.mk("not", BoolSort, a)
}

func (ts *TermStore) And(a, b *Term) *Term {
	if a.IsFalse() || b.IsFalse() {
		return ts.False()
	}
	if a.IsTrue() {
		return b
	}
	if b.IsTrue() {
		return a
	}
	if a == b {
		return a
	}
	if (a.Op == "not" && a.Args[0] == b) || (b.Op == "not" && b.Args[0] == a) {
		return ts.False()
	}
	return ts.mk("and", BoolSort, a, b)
}

func (ts *TermStore) Or(a, b *Term) *Term {
	if a.IsTrue() || b.IsTrue() {
		return ts.True()
	}
	if a.IsFalse() {
		return b
	}
	if b.IsFalse() {
		return a
	}
	if a == b {
		return a
	}
	if (a.Op == "not" && a.Args[0] == b) || (b.Op == "not" && b.Args[0] == a) {
		return ts.True()
	}
	return ts.mk("or", BoolSort, a, b)
}

func (ts *TermStore) Implies(a, b *Term) *Term { return ts.Or(ts.Not(a), b) }

func (ts *TermStore) Ite(c, a, b *Term) *Term {
	if c.IsTrue() {
		return a
	}
	if c.IsFalse() {
		return b
	}
	if a == b {
		return a
	}
	if a.Sort != b.Sort {
		panic(fmt.Sprintf("ite sort mismatch %v %v", a.Sort, b.Sort))
	}
	if a.Sort.K == SBool {
		if a.IsTrue() && b.IsFalse() {
			return c
		}
		if a.IsFalse() && b.IsTrue() {
			return ts.Not(c)
		}
		if a.IsTrue() {
			return ts.Or(c, b)
		}
		if a.IsFalse() {
			return ts.And(ts.Not(c), b)
		}
		if b.IsTrue() {
			return ts.Or(ts.Not(c), a)
		}
		if b.IsFalse() {
			return ts.And(c, a)
		}
	}
	return ts.mk("ite", a.Sort, c, a, b)
}

func (ts *TermStore) Eq(a, b *Term) *Term {
	if a == b {
		// careful: FP NaN -- "=" in SMT is structural equality, callers use FPEq for Go ==
		return ts.True()
	}
	if a.Sort != b.Sort {
		panic(fmt.Sprintf("eq sort mismatch %v %v (%s / %s)", a.Sort, b.Sort, a.Op, b.Op))
	}
	if a.Const && b.Const {
		if a.B != nil || b.B != nil {
			return ts.Bool(a.BigU().Cmp(b.BigU()) == 0 && (a.Sort.K != SInt || true))
		}
		return ts.Bool(a.U == b.U)
	}
	if a.Sort.K == SBool {
		if a.IsTrue() {
			return b
		}
		if b.IsTrue() {
			return a
		}
		if a.IsFalse() {
			return ts.Not(b)
		}
		if b.IsFalse() {
			return ts.Not(a)
		}
	}
	// (ite c k1 k2) = k with constant arms folds to c, (not c), true or false
	for _, pr := range [][2]*Term{{a, b}, {b, a}} {
		x, k := pr[0], pr[1]
		if x.Op == "ite" && k.Const && x.Args[1].Const && x.Args[2].Const && x.Sort.K != SFP32 && x.Sort.K != SFP64 {
			return ts.Ite(x.Args[0], ts.Eq(x.Args[1], k), ts.Eq(x.Args[2], k))
		}
	}
	if a.id > b.id {
		a, b = b, a
	}
	return ts.mk("=", BoolSort, a, b)
}

// ---------- bit-vector ops

func sext64(v uint64, w int) int64 {
	if w >= 64 {
		return int64(v)
	}
	sh := uint(64 - w)
	return int64(v<<sh) >> sh
}

func (ts *TermStore) bvFoldBig(op string, a, b *Term) *Term {
	w := a.Sort.W
	x, y := a.BigU(), b.BigU()
	xs, ys := a.BigS(), b.BigS()
	r := new(big.Int)
	switch op {
	case "bvadd":
		r.Add(x, y)
	case "bvsub":
		r.Sub(x, y)
	case "bvmul":
		r.Mul(x, y)
	case "bvand":
		r.And(x, y)
	case "bvor":
		r.Or(x, y)
	case "bvxor":
		r.Xor(x, y)
	case "bvudiv":
		if y.Sign() == 0 {
			r.Sub(new(big.Int).Lsh(big.NewInt(1), uint(w)), big.NewInt(1))
		} else {
			r.Quo(x, y)
		}
	case "bvurem":
		if y.Sign() == 0 {
			r.Set(x)
		} else {
			r.Rem(x, y)
		}
	case "bvsdiv":
		if ys.Sign() == 0 {
			if xs.Sign() >= 0 {
				r.SetInt64(-1)
			} else {
				r.SetInt64(1)
			}
		} else {
			r.Quo(xs, ys)
		}
	case "bvsrem":
		if ys.Sign() == 0 {
			r.Set(xs)
		} else {
			r.Rem(xs, ys)
		}
	case "bvshl":
		if y.Cmp(big.NewInt(int64(w))) >= 0 {
			r.SetInt64(0)
		} else {
			r.Lsh(x, uint(y.Uint64()))
		}
	case "bvlshr":
		if y.Cmp(big.NewInt(int64(w))) >= 0 {
			r.SetInt64(0)
		} else {
			r.Rsh(x, uint(y.Uint64()))
		}
	case "bvashr":
		if y.Cmp(big.NewInt(int64(w))) >= 0 {
			if xs.Sign() < 0 {
				r.SetInt64(-1)
			} else {
				r.SetInt64(0)
			}
		} else {
			r.Rsh(xs, uint(y.Uint64()))
		}
	default:
		panic("bvFoldBig " + op)
	}
	return ts.BVBig(w, r)
}

func (ts *TermStore) BVBin(op string, a, b *Term) *Term {
	if a.Sort != b.Sort || a.Sort.K != SBV {
		panic(fmt.Sprintf("BVBin %s sort mismatch %v %v", op, a.Sort, b.Sort))
	}
	w := a.Sort.W
	if a.Const && b.Const {
		if w > 64 {
			return ts.bvFoldBig(op, a, b)
		}
		x, y := a.U, b.U
		var r uint64
		switch op {
		case "bvadd":
			r = x + y
		case "bvsub":
			r = x - y
		case "bvmul":
			r = x * y
		case "bvand":
			r = x & y
		case "bvor":
			r = x | y
		case "bvxor":
			r = x ^ y
		case "bvshl":
			if y >= uint64(w) {
				r = 0
			} else {
				r = x << y
			}
		case "bvlshr":
			if y >= uint64(w) {
				r = 0
			} else {
				r = x >> y
			}
		case "bvashr":
			sx := sext64(x, w)
			if y >= uint64(w) {
				if sx < 0 {
					r = ^uint64(0)
				} else {
					r = 0
				}
			} else {
				r = uint64(sx >> y)
			}
		default:
			return ts.bvFoldBig(op, a, b)
		}
		return ts.BVConst(w, r)
	}
	// unsigned division/remainder of a zero-extended narrow value by a small constant is
	// done at the narrow width (hash % capacity with a narrow hash model)
	if (op == "bvurem" || op == "bvudiv") && a.Op == "zero_extend" && b.Const && b.B == nil && w <= 64 && b.U != 0 {
		in := a.Args[0]
		if iw := in.Sort.W; iw < 64 && b.U < (uint64(1)<<uint(iw)) {
			return ts.ZeroExt(ts.BVBin(op, in, ts.BVConst(iw, b.U)), w)
		}
	}
	// light algebraic simplification
	switch op {
	case "bvadd", "bvor", "bvxor":
		if a.Const && a.U == 0 && a.B == nil {
			return b
		}
		if b.Const && b.U == 0 && b.B == nil {
			return a
		}
	case "bvsub", "bvshl", "bvlshr", "bvashr":
		if b.Const && b.U == 0 && b.B == nil {
			return a
		}
	case "bvmul":
		if a.Const && a.B == nil && a.U == 1 {
			return b
		}
		if b.Const && b.B == nil && b.U == 1 {
			return a
		}
		if (a.Const && a.B == nil && a.U == 0) || (b.Const && b.B == nil && b.U == 0) {
			return ts.BVConst(w, 0)
		}
	case "bvand":
		if (a.Const && a.B == nil && a.U == 0) || (b.Const && b.B == nil && b.U == 0) {
			return ts.BVConst(w, 0)
		}
		if a.Const && a.B == nil && w <= 64 && a.U == mask(w) {
			return b
		}
		if b.Const && b.B == nil && w <= 64 && b.U == mask(w) {
			return a
		}
		if a == b {
			return a
		}
	}
	switch op {
	case "bvadd", "bvmul", "bvand", "bvor", "bvxor":
		if a.id > b.id {
			a, b = b, a
		}
	}
	return ts.mk(op, a.Sort, a, b)
}

func (ts *TermStore) BVNot(a *Term) *Term {
	if a.Const {
		w := a.Sort.W
		if w > 64 {
			return ts.BVBig(w, new(big.Int).Not(a.BigU()))
		}
		return ts.BVConst(w, ^a.U)
	}
	if a.Op == "bvnot" {
		return a.Args[0]
	}
	return ts.mk("bvnot", a.Sort, a)
}

func (ts *TermStore) BVNeg(a *Term) *Term {
	if a.Const {
		w := a.Sort.W
		if w > 64 {
			return ts.BVBig(w, new(big.Int).Neg(a.BigU()))
		}
		return ts.BVConst(w, -a.U)
	}
	return ts.mk("bvneg", a.Sort, a)
}

func (ts *TermStore) BVCmp(op string, a, b *Term) *Term {
	if a.Sort != b.Sort || a.Sort.K != SBV {
		panic(fmt.Sprintf("BVCmp %s sort mismatch %v %v", op, a.Sort, b.Sort))
	}
	if a.Const && b.Const {
		var c int
		switch op {
		case "bvult", "bvule", "bvugt", "bvuge":
			c = a.BigU().Cmp(b.BigU())
		default:
			c = a.BigS().Cmp(b.BigS())
		}
		switch op {
		case "bvult", "bvslt":
			return ts.Bool(c < 0)
		case "bvule", "bvsle":
			return ts.Bool(c <= 0)
		case "bvugt", "bvsgt":
			return ts.Bool(c > 0)
		case "bvuge", "bvsge":
			return ts.Bool(c >= 0)
		}
	}
	if a == b {
		switch op {
		case "bvult", "bvslt", "bvugt", "bvsgt":
			return ts.False()
		default:
			return ts.True()
		}
	}
	return ts.mk(op, BoolSort, a, b)
}

func (ts *TermStore) Extract(hi, lo int, a *Term) *Term {
	w := hi - lo + 1
	if lo == 0 && w == a.Sort.W {
		return a
	}
	if a.Const {
		v := new(big.Int).Rsh(a.BigU(), uint(lo))
		return ts.BVBig(w, v)
	}
	// extract of zero/sign extend within original width
	if (a.Op == "zero_extend" || a.Op == "sign_extend") && lo == 0 {
		inner := a.Args[0]
		if w == inner.Sort.W {
			return inner
		}
		if w < inner.Sort.W {
			return ts.Extract(hi, lo, inner)
		}
	}
	// a byte of a logically right-shifted word is a byte of the word
	if a.Op == "bvlshr" && a.Args[1].Const && a.Args[1].B == nil && a.Sort.W <= 64 {
		if k := int(a.Args[1].U); k >= 0 && hi+k < a.Sort.W {
			return ts.Extract(hi+k, lo+k, a.Args[0])
		}
	}
	if a.Op == "concat" {
		loW := a.Args[1].Sort.W
		if hi < loW {
			return ts.Extract(hi, lo, a.Args[1])
		}
		if lo >= loW {
			return ts.Extract(hi-loW, lo-loW, a.Args[0])
		}
	}
	return ts.intern(&Term{Op: "extract", Sort: BV(w), Args: []*Term{a}, P1: hi, P2: lo})
}

func (ts *TermStore) ZeroExt(a *Term, to int) *Term {
	n := to - a.Sort.W
	if n == 0 {
		return a
	}
	if n < 0 {
		panic("ZeroExt shrink")
	}
	if a.Const {
		return ts.BVBig(to, a.BigU())
	}
	if a.Op == "zero_extend" {
		return ts.ZeroExt(a.Args[0], to)
	}
	return ts.intern(&Term{Op: "zero_extend", Sort: BV(to), Args: []*Term{a}, P1: n})
}

func (ts *TermStore) SignExt(a *Term, to int) *Term {
	n := to - a.Sort.W
	if n == 0 {
		return a
	}
	if n < 0 {
		panic("SignExt shrink")
	}
	if a.Const {
		return ts.BVBig(to, a.BigS())
	}
	if a.Op == "sign_extend" {
		return ts.SignExt(a.Args[0], to)
	}
	return ts.intern(&Term{Op: "sign_extend", Sort: BV(to), Args: []*Term{a}, P1: n})
}

func (ts *TermStore) Concat(hi, lo *Term) *Term {
	if hi.Const && lo.Const {
		v := new(big.Int).Lsh(hi.BigU(), uint(lo.Sort.W))
		v.Or(v, lo.BigU())
		return ts.BVBig(hi.Sort.W+lo.Sort.W, v)
	}
	return ts.mk("concat", BV(hi.Sort.W+lo.Sort.W), hi, lo)
}

// ---------- mathematical integers

func (ts *TermStore) IntBin(op string, a, b *Term) *Term {
	if a.Sort.K != SInt || b.Sort.K != SInt {
		panic("IntBin sorts " + op)
	}
	if a.Const && b.Const {
		r := new(big.Int)
		switch op {
		case "+":
			r.Add(a.B, b.B)
		case "-":
			r.Sub(a.B, b.B)
		case "*":
			r.Mul(a.B, b.B)
		case "div": // SMT-LIB: Euclidean-like: a = b*q + r, 0 <= r < |b|
			if b.B.Sign() == 0 {
				return ts.mk(op, IntSort, a, b)
			}
			r.Div(a.B, b.B)
		case "mod":
			if b.B.Sign() == 0 {
				return ts.mk(op, IntSort, a, b)
			}
			r.Mod(a.B, b.B)
		default:
			panic("IntBin " + op)
		}
		return ts.IntConst(r)
	}
	switch op {
	case "+":
		if a.Const && a.B.Sign() == 0 {
			return b
		}
		if b.Const && b.B.Sign() == 0 {
			return a
		}
	case "-":
		if b.Const && b.B.Sign() == 0 {
			return a
		}
	case "*":
		if a.Const && a.B.Cmp(big.NewInt(1)) == 0 {
			return b
		}
		if b.Const && b.B.Cmp(big.NewInt(1)) == 0 {
			return a
		}
		if (a.Const && a.B.Sign() == 0) || (b.Const && b.B.Sign() == 0) {
			return ts.IntConst64(0)
		}
	case "div":
		if b.Const && b.B.Cmp(big.NewInt(1)) == 0 {
			return a
		}
	}
	return ts.mk(op, IntSort, a, b)
}

func (ts *TermStore) IntNeg(a *Term) *Term {
	if a.Const {
		return ts.IntConst(new(big.Int).Neg(a.B))
	}
	return ts.mk("-", IntSort, a)
}

func (ts *TermStore) IntAbs(a *Term) *Term {
	if a.Const {
		return ts.IntConst(new(big.Int).Abs(a.B))
	}
	return ts.mk("abs", IntSort, a)
}

func (ts *TermStore) IntCmp(op string, a, b *Term) *Term {
	if a.Sort.K != SInt || b.Sort.K != SInt {
		panic("IntCmp sorts " + op)
	}
	if a.Const && b.Const {
		c := a.B.Cmp(b.B)
		switch op {
		case "<":
			return ts.Bool(c < 0)
		case "<=":
			return ts.Bool(c <= 0)
		case ">":
			return ts.Bool(c > 0)
		case ">=":
			return ts.Bool(c >= 0)
		}
	}
	if a == b {
		return ts.Bool(op == "<=" || op == ">=")
	}
	return ts.mk(op, BoolSort, a, b)
}

// conversions between BV and Int
func (ts *TermStore) BV2Nat(a *Term) *Term {
	if a.Const {
		return ts.IntConst(a.BigU())
	}
	return ts.mk("bv2nat", IntSort, a)
}

// signed interpretation of a BV as Int
func (ts *TermStore) BV2Int(a *Term) *Term {
	if a.Const {
		return ts.IntConst(a.BigS())
	}
	w := a.Sort.W
	n := ts.BV2Nat(a)
	half := ts.IntConst(new(big.Int).Lsh(big.NewInt(1), uint(w-1)))
	full := ts.IntConst(new(big.Int).Lsh(big.NewInt(1), uint(w)))
	return ts.Ite(ts.IntCmp(">=", n, half), ts.IntBin("-", n, full), n)
}

func (ts *TermStore) Int2BV(w int, a *Term) *Term {
	if a.Const {
		return ts.BVBig(w, a.B)
	}
	return ts.intern(&Term{Op: "int2bv", Sort: BV(w), Args: []*Term{a}, P1: w})
}

// ---------- floating point

func fpSortOf(bits int) Sort {
	if bits == 32 {
		return F32Sort
	}
	return F64Sort
}

func (ts *TermStore) fpConstOf(s Sort, f float64) *Term {
	if s.K == SFP32 {
		return ts.F32Const(float32(f))
	}
	return ts.F64Const(f)
}

func (t *Term) fpVal() float64 {
	if t.Sort.K == SFP32 {
		return float64(t.F32())
	}
	return t.F64()
}

func (ts *TermStore) FPBin(op string, a, b *Term) *Term {
	if a.Sort != b.Sort {
		panic("FPBin sort mismatch")
	}
	if a.Const && b.Const {
		if a.Sort.K == SFP32 {
			x, y := a.F32(), b.F32()
			var r float32
			switch op {
			case "fp.add":
				r = x + y
			case "fp.sub":
				r = x - y
			case "fp.mul":
				r = x * y
			case "fp.div":
				r = x / y
			default:
				goto sym
			}
			return ts.F32Const(r)
		}
		x, y := a.F64(), b.F64()
		var r float64
		switch op {
		case "fp.add":
			r = x + y
		case "fp.sub":
			r = x - y
		case "fp.mul":
			r = x * y
		case "fp.div":
			r = x / y
		default:
			goto sym
		}
		return ts.F64Const(r)
	}
sym:
	return ts.mk(op, a.Sort, a, b)
}

func (ts *TermStore) FPNeg(a *Term) *Term {
	if a.Const {
		if a.Sort.K == SFP32 {
			return ts.intern(&Term{Op: "const", Sort: F32Sort, Const: true, U: a.U ^ 0x80000000})
		}
		return ts.intern(&Term{Op: "const", Sort: F64Sort, Const: true, U: a.U ^ (1 << 63)})
	}
	return ts.mk("fp.neg", a.Sort, a)
}

func (ts *TermStore) FPUn(op string, a *Term) *Term {
	if a.Const {
		f := a.fpVal()
		switch op {
		case "fp.abs":
			return ts.fpConstOf(a.Sort, math.Abs(f))
		case "fp.floor":
			return ts.fpConstOf(a.Sort, math.Floor(f))
		case "fp.ceil":
			return ts.fpConstOf(a.Sort, math.Ceil(f))
		case "fp.trunc":
			return ts.fpConstOf(a.Sort, math.Trunc(f))
		case "fp.sqrt":
			if a.Sort.K == SFP64 {
				return ts.F64Const(math.Sqrt(f))
			}
		}
	}
	return ts.mk(op, a.Sort, a)
}

func (ts *TermStore) FPPred(op string, a *Term) *Term {
	if a.Const {
		f := a.fpVal()
		switch op {
		case "fp.isNaN":
			return ts.Bool(math.IsNaN(f))
		case "fp.isInfinite":
			return ts.Bool(math.IsInf(f, 0))
		case "fp.isNegative":
			return ts.Bool(math.Signbit(f) && !math.IsNaN(f))
		case "fp.isZero":
			return ts.Bool(f == 0)
		}
	}
	return ts.mk(op, BoolSort, a)
}

func (ts *TermStore) FPCmp(op string, a, b *Term) *Term {
	if a.Sort != b.Sort {
		panic("FPCmp sort mismatch")
	}
	if a.Const && b.Const {
		x, y := a.fpVal(), b.fpVal()
		switch op {
		case "fp.eq":
			return ts.Bool(x == y)
		case "fp.lt":
			return ts.Bool(x < y)
		case "fp.leq":
			return ts.Bool(x <= y)
		case "fp.gt":
			return ts.Bool(x > y)
		case "fp.geq":
			return ts.Bool(x >= y)
		}
	}
	return ts.mk(op, BoolSort, a, b)
}

// reinterpret bits as float
func (ts *TermStore) FPFromBits(s Sort, b *Term) *Term {
	if b.Const {
		return ts.intern(&Term{Op: "const", Sort: s, Const: true, U: b.U})
	}
	if b.Op == "fpbits" && b.Args[0].Sort == s {
		return b.Args[0]
	}
	return ts.mk("fpfrombits", s, b)
}

// FPBits returns the IEEE bit pattern. It is printed as z3's fp.to_ieee_bv; for
// solvers without it the driver rewrites through a fresh variable.
func (ts *TermStore) FPBits(f *Term) *Term {
	w := 64
	if f.Sort.K == SFP32 {
		w = 32
	}
	if f.Const {
		return ts.BVConst(w, f.U)
	}
	if f.Op == "fpfrombits" {
		return f.Args[0]
	}
	if f.Op == "fp.neg" {
		// Go (and the hardware) negate by flipping the sign bit, NaN included
		return ts.BVBin("bvxor", ts.FPBits(f.Args[0]), ts.BVConst(w, uint64(1)<<uint(w-1)))
	}
	return ts.mk("fpbits", BV(w), f)
}

// FPConv converts between float formats (RNE).
func (ts *TermStore) FPConv(to Sort, a *Term) *Term {
	if a.Sort == to {
		return a
	}
	if a.Const {
		if to.K == SFP32 {
			return ts.F32Const(float32(a.F64()))
		}
		return ts.F64Const(float64(a.F32()))
	}
	return ts.mk("fp.to_fp", to, a)
}

// signed/unsigned BV to float (RNE)
func (ts *TermStore) FPFromBV(to Sort, a *Term, signed bool) *Term {
	if a.Const && a.Sort.W <= 64 {
		if signed {
			v := sext64(a.U, a.Sort.W)
			if to.K == SFP32 {
				return ts.F32Const(float32(v))
			}
			return ts.F64Const(float64(v))
		}
		if to.K == SFP32 {
			return ts.F32Const(float32(a.U))
		}
		return ts.F64Const(float64(a.U))
	}
	if signed {
		return ts.mk("fp.from_sbv", to, a)
	}
	return ts.mk("fp.from_ubv", to, a)
}

// float to BV, round toward zero. Out-of-range is unspecified in SMT and
// implementation-defined in Go; callers treat it as unconstrained.
func (ts *TermStore) FPToBV(w int, a *Term, signed bool) *Term {
	if a.Const {
		f := a.fpVal()
		if !math.IsNaN(f) && !math.IsInf(f, 0) {
			bf := new(big.Float).SetFloat64(math.Trunc(f))
			bi, _ := bf.Int(nil)
			lo, hi := new(big.Int), new(big.Int)
			if signed {
				lo.Neg(new(big.Int).Lsh(big.NewInt(1), uint(w-1)))
				hi.Sub(new(big.Int).Lsh(big.NewInt(1), uint(w-1)), big.NewInt(1))
			} else {
				hi.Sub(new(big.Int).Lsh(big.NewInt(1), uint(w)), big.NewInt(1))
			}
			if bi.Cmp(lo) >= 0 && bi.Cmp(hi) <= 0 {
				return ts.BVBig(w, bi)
			}
		}
	}
	op := "fp.to_ubv"
	if signed {
		op = "fp.to_sbv"
	}
	return ts.intern(&Term{Op: op, Sort: BV(w), Args: []*Term{a}, P1: w})
}

// Int (mathematical) to float RNE via real
func (ts *TermStore) FPFromInt(to Sort, a *Term) *Term {
	return ts.mk("fp.from_int", to, a)
}

// uninterpreted function application
func (ts *TermStore) UF(name string, ret Sort, args ...*Term) *Term {
	var sig strings.Builder
	sig.WriteString("(")
	for i, a := range args {
		if i > 0 {
			sig.WriteString(" ")
		}
		sig.WriteString(a.Sort.String())
	}
	sig.WriteString(") ")
	sig.WriteString(ret.String())
	if old, ok := ts.UFs[name]; ok && old != sig.String() {
		panic("UF redeclared with different signature: " + name)
	}
	ts.UFs[name] = sig.String()
	return ts.intern(&Term{Op: "uf", Sort: ret, Args: args, Name: name})
}

// ---------- printing

func smtName(n string) string { return "|" + strings.ReplaceAll(n, "|", "_") + "|" }

func (t *Term) constString() string {
	switch t.Sort.K {
	case SBool:
		if t.U == 1 {
			return "true"
		}
		return "false"
	case SBV:
		w := t.Sort.W
		v := t.BigU()
		if w%4 == 0 {
			s := v.Text(16)
			return "#x" + strings.Repeat("0", w/4-len(s)) + s
		}
		s := v.Text(2)
		return "#b" + strings.Repeat("0", w-len(s)) + s
	case SInt:
		if t.B.Sign() < 0 {
			return "(- " + new(big.Int).Neg(t.B).String() + ")"
		}
		return t.B.String()
	case SFP32:
		return fmt.Sprintf("((_ to_fp 8 24) #x%08x)", uint32(t.U))
	case SFP64:
		return fmt.Sprintf("((_ to_fp 11 53) #x%016x)", t.U)
	}
	return "?"
}

func fpParams(s Sort) string {
	if s.K == SFP32 {
		return "8 24"
	}
	return "11 53"
}

func (t *Term) head() string {
	switch t.Op {
	case "extract":
		return fmt.Sprintf("(_ extract %d %d)", t.P1, t.P2)
	case "zero_extend", "sign_extend":
		return fmt.Sprintf("(_ %s %d)", t.Op, t.P1)
	case "int2bv":
		return fmt.Sprintf("(_ int2bv %d)", t.P1)
	case "fp.add", "fp.sub", "fp.mul", "fp.div":
		return t.Op + " RNE"
	case "fp.sqrt":
		return "fp.sqrt RNE"
	case "fp.floor":
		return "fp.roundToIntegral RTN"
	case "fp.ceil":
		return "fp.roundToIntegral RTP"
	case "fp.trunc":
		return "fp.roundToIntegral RTZ"
	case "fpfrombits":
		return "(_ to_fp " + fpParams(t.Sort) + ")"
	case "fpbits":
		return "fp.to_ieee_bv"
	case "fp.to_fp":
		return "(_ to_fp " + fpParams(t.Sort) + ") RNE"
	case "fp.from_sbv":
		return "(_ to_fp " + fpParams(t.Sort) + ") RNE"
	case "fp.from_ubv":
		return "(_ to_fp_unsigned " + fpParams(t.Sort) + ") RNE"
	case "fp.from_int":
		return "(_ to_fp " + fpParams(t.Sort) + ") RNE to_real"
	case "fp.to_sbv":
		return fmt.Sprintf("(_ fp.to_sbv %d) RTZ", t.P1)
	case "fp.to_ubv":
		return fmt.Sprintf("(_ fp.to_ubv %d) RTZ", t.P1)
	case "uf":
		return smtName(t.Name)
	}
	return t.Op
}

// SMT renders the term with let-bindings for shared subterms.
func (ts *TermStore) SMT(root *Term) string {
	// count references
	refs := map[*Term]int{}
	var order []*Term
	var visit func(t *Term)
	visit = func(t *Term) {
		refs[t]++
		if refs[t] > 1 {
			return
		}
		for _, a := range t.Args {
			visit(a)
		}
		order = append(order, t) // post-order
	}
	visit(root)
	names := map[*Term]string{}
	var render func(t *Term) string
	render = func(t *Term) string {
		if n, ok := names[t]; ok {
			return n
		}
		if t.Const {
			return t.constString()
		}
		if t.Op == "var" {
			return smtName(t.Name)
		}
		if t.Op == "fp.from_int" {
			return "((_ to_fp " + fpParams(t.Sort) + ") RNE (to_real " + render(t.Args[0]) + "))"
		}
		var sb strings.Builder
		sb.WriteString("(")
		sb.WriteString(t.head())
		for _, a := range t.Args {
			sb.WriteString(" ")
			sb.WriteString(render(a))
		}
		sb.WriteString(")")
		return sb.String()
	}
	var sb strings.Builder
	nlets := 0
	for _, t := range order {
		if t == root || t.Const || t.Op == "var" || refs[t] < 2 {
			continue
		}
		s := render(t)
		n := fmt.Sprintf("?t%d", t.id)
		fmt.Fprintf(&sb, "(let ((%s %s)) ", n, s)
		names[t] = n
		nlets++
	}
	sb.WriteString(render(root))
	sb.WriteString(strings.Repeat(")", nlets))
	return sb.String()
}

// Vars collects the free variables of a term.
func (ts *TermStore) Vars(root *Term, into map[string]*Term) {
	seen := map[*Term]bool{}
	var visit func(t *Term)
	visit = func(t *Term) {
		if seen[t] {
			return
		}
		seen[t] = true
		if t.Op == "var" {
			into[t.Name] = t
		}
		for _, a := range t.Args {
			visit(a)
		}
	}
	visit(root)
}

func (ts *TermStore) UFsOf(root *Term, into map[string]bool) {
	seen := map[*Term]bool{}
	var visit func(t *Term)
	visit = func(t *Term) {
		if seen[t] {
			return
		}
		seen[t] = true
		if t.Op == "uf" {
			into[t.Name] = true
		}
		for _, a := range t.Args {
			visit(a)
		}
	}
	visit(root)
}

func sortedKeys[V any](m map[string]V) []string {
	ks := make([]string, 0, len(m))
	for k := range m {
		ks = append(ks, k)
	}
	sort.Strings(ks)
	return ks
}

func (t *Term) String() string {
	if t.Const {
		return t.constString()
	}
	if t.Op == "var" {
		return t.Name
	}
	var sb strings.Builder
	sb.WriteString("(" + t.head())
	for _, a := range t.Args {
		sb.WriteString(" " + a.String())
	}
	sb.WriteString(")")
	s := sb.String()
	if len(s) > 300 {
		return s[:300] + "…"
	}
	return s
}
