package main

// Calls, Go builtins and the harness API (vx*).

import (
	"fmt"
	"go/types"
	"math/big"
	"strings"

	"golang.org/x/tools/go/ssa"
)

type intrinsicFn func(ex *Exec, fr *Frame, fn *ssa.Function, args []Value, site ssa.Instruction) Value

func (ex *Exec) prepareCall(fr *Frame, call *ssa.CallCommon, site ssa.Instruction) (Value, []Value) {
	if call.IsInvoke() {
		rv := ex.get(fr, call.Value)
		if op, ok := rv.(Opaque); ok {
			ex.unsupported("method call %s on opaque value (%s)", call.Method.Name(), op.Why)
		}
		iv, ok := rv.(IfaceV)
		if !ok {
			ex.unsupported("invoke on %T", rv)
		}
		if iv.T == nil {
			ex.goPanicRuntime("invalid memory address or nil pointer dereference (method call on nil interface)", ex.posOf(site))
		}
		args := make([]Value, 0, len(call.Args)+1)
		args = append(args, iv.V)
		for _, a := range call.Args {
			args = append(args, ex.get(fr, a))
		}
		if iv.T == runtimeErrorType {
			return &FuncV{Builtin: "vx:runtimeError." + call.Method.Name()}, args
		}
		m := ex.P.Prog.LookupMethod(iv.T, call.Method.Pkg(), call.Method.Name())
		if m == nil {
			ex.unsupported("no method %s on %s", call.Method.Name(), typeString(iv.T))
		}
		return &FuncV{Fn: m}, args
	}
	fv := ex.get(fr, call.Value)
	args := make([]Value, len(call.Args))
	for i, a := range call.Args {
		args[i] = ex.get(fr, a)
	}
	return fv, args
}

func (ex *Exec) doCall(fr *Frame, call *ssa.CallCommon, site ssa.Instruction) Value {
	if b, ok := call.Value.(*ssa.Builtin); ok && !call.IsInvoke() {
		args := make([]Value, len(call.Args))
		for i, a := range call.Args {
			args[i] = ex.get(fr, a)
		}
		return ex.builtin(fr, b.Name(), args, call, site)
	}
	fv, args := ex.prepareCall(fr, call, site)
	return ex.callValue(fr, fv, args, site)
}

func (ex *Exec) callBuiltinValue(fr *Frame, f *FuncV, args []Value, site ssa.Instruction) Value {
	switch f.Builtin {
	case "vx:runtimeError.Error":
		return args[0]
	case "vx:runtimeError.RuntimeError":
		return nil
	}
	return ex.builtin(fr, f.Builtin, args, nil, site)
}

func (ex *Exec) lenOf(v Value) *Term {
	switch x := v.(type) {
	case StringV:
		return ex.goInt(int64(len(x.B)))
	case SliceV:
		return ex.goInt(int64(x.Len))
	case *ArrayV:
		return ex.goInt(int64(len(x.Elems)))
	case Pointer:
		if x.Obj == nil {
			return ex.goInt(0)
		}
		if av, ok := ex.load(x, "len").(*ArrayV); ok {
			return ex.goInt(int64(len(av.Elems)))
		}
	case MapV:
		return ex.goInt(int64(len(ex.mapData(x).Entries)))
	case ChanV:
		return ex.chanLen(x)
	}
	ex.unsupported("len of %T", v)
	return nil
}

func (ex *Exec) builtin(fr *Frame, name string, args []Value, call *ssa.CallCommon, site ssa.Instruction) Value {
	ts := ex.ts
	switch name {
	case "len":
		return ex.lenOf(args[0])
	case "cap":
		switch x := args[0].(type) {
		case SliceV:
			return ex.goInt(int64(x.Cap))
		case *ArrayV:
			return ex.goInt(int64(len(x.Elems)))
		case ChanV:
			return ex.chanCap(x)
		case Pointer:
			return ex.lenOf(x)
		}
	case "append":
		return ex.appendBuiltin(args, call, site)
	case "copy":
		dst := args[0].(SliceV)
		var src []Value
		switch s := args[1].(type) {
		case SliceV:
			src = append([]Value(nil), ex.sliceElems(s)...)
		case StringV:
			for _, b := range s.B {
				src = append(src, b)
			}
		}
		n := len(src)
		if dst.Len < n {
			n = dst.Len
		}
		if n > 0 {
			av := ex.load(dst.Arr, "copy").(*ArrayV)
			es := make([]Value, len(av.Elems))
			copy(es, av.Elems)
			for i := 0; i < n; i++ {
				es[dst.Off+i] = src[i]
			}
			ex.store(dst.Arr, &ArrayV{Elems: es}, "copy")
		}
		return ex.goInt(int64(n))
	case "delete":
		ex.mapDelete(args[0], args[1], site)
		return nil
	case "print", "println":
		return nil
	case "panic":
		panic(&GoPanic{Val: args[0], Msg: ex.panicMessage(args[0]), Site: ex.posOf(site), Stack: ex.stackStrings()})
	case "recover":
		df := fr.deferOf
		if df != nil && df.panicking != nil && !df.panicking.Fatal {
			v := df.panicking.Val
			df.panicking = nil
			if _, ok := v.(IfaceV); !ok {
				v = IfaceV{T: types.Typ[types.String], V: v}
			}
			return v
		}
		return IfaceV{}
	case "ssa:wrapnilchk":
		if p, ok := args[0].(Pointer); ok && p.Obj == nil {
			ex.goPanicRuntime("value method called using nil pointer", ex.posOf(site))
		}
		return args[0]
	case "min", "max":
		acc := args[0]
		for _, a := range args[1:] {
			var t types.Type
			if call != nil {
				t = call.Args[0].Type()
			}
			var less Value
			if name == "min" {
				less = ex.binop(tokenLSS, a, acc, t, t, site)
			} else {
				less = ex.binop(tokenLSS, acc, a, t, t, site)
			}
			m, ok := ex.merge(less.(*Term), a, acc)
			if !ok {
				ex.unsupported("min/max merge")
			}
			acc = m
		}
		return acc
	case "clear":
		switch x := args[0].(type) {
		case MapV:
			if x.Obj != nil {
				ex.memSet(x.Obj, &MapData{})
			}
		case SliceV:
			if x.Len > 0 {
				av := ex.load(x.Arr, "clear").(*ArrayV)
				es := make([]Value, len(av.Elems))
				copy(es, av.Elems)
				et := x.Arr.Obj.Typ.Underlying().(*types.Array).Elem()
				for i := 0; i < x.Len; i++ {
					es[x.Off+i] = ex.zero(et)
				}
				ex.store(x.Arr, &ArrayV{Elems: es}, "clear")
			}
		}
		return nil
	case "close":
		ex.chanClose(fr, args[0], site)
		return nil
	case "Add": // unsafe.Add(ptr, len)
		var a Value
		switch p := args[0].(type) {
		case Pointer:
			a = ex.ptrToAddr(p)
		default:
			a = p
		}
		ad, ok := a.(Addr)
		if !ok {
			ex.unsupported("unsafe.Add on %T", a)
		}
		n := args[1].(*Term)
		if !ex.intMode && n.Sort.W < 64 {
			n = ts.SignExt(n, 64)
		}
		return Addr{Obj: ad.Obj, Off: ex.offAdd(ad.Off, n)}
	case "Slice": // unsafe.Slice(ptr, len)
		p, ok := args[0].(Pointer)
		if !ok {
			p = ex.toPointer(args[0], call.Args[0].Type(), site)
		}
		nT := ex.normIndex(args[1], call.Args[1].Type())
		n := ex.concreteIntOrAbort(nT, 70, "unsafe.Slice len")
		if n < 0 {
			ex.goPanicRuntime("unsafe.Slice: len out of range", ex.posOf(site))
		}
		if p.Obj == nil {
			if n != 0 {
				ex.goPanicRuntime("unsafe.Slice: ptr is nil and len is not zero", ex.posOf(site))
			}
			return SliceV{}
		}
		if len(p.Path) == 0 {
			if n > 1 {
				ex.unsupported("unsafe.Slice over a scalar object with len %d", n)
			}
			// wrap a scalar object as a 1-element array: unsupported unless needed
			ex.unsupported("unsafe.Slice on non-array element")
		}
		last := p.Path[len(p.Path)-1]
		arrPtr := Pointer{Obj: p.Obj, Path: p.Path[:len(p.Path)-1]}
		av, isArr := ex.load(arrPtr, "unsafe.Slice").(*ArrayV)
		if !isArr || last.Sym != nil {
			ex.unsupported("unsafe.Slice on non-array element")
		}
		if last.Idx+n > len(av.Elems) {
			panic(&GoPanic{Val: ex.runtimeErrorValue("unsafe.Slice beyond object"), Msg: fmt.Sprintf("unsafe.Slice: [%d:%d] reaches beyond the %d-element object %s", last.Idx, last.Idx+n, len(av.Elems), p.Obj), Runtime: true, Fatal: true, Site: ex.posOf(site), Stack: ex.stackStrings()})
		}
		return SliceV{Arr: arrPtr, Off: last.Idx, Len: n, Cap: n}
	case "SliceData":
		s := args[0].(SliceV)
		if s.Arr.Obj == nil {
			return Pointer{}
		}
		return Pointer{Obj: s.Arr.Obj, Path: appendPath(s.Arr.Path, PathElem{Idx: s.Off})}
	case "String": // unsafe.String(ptr *byte, len)
		nT := ex.normIndex(args[1], call.Args[1].Type())
		n := ex.concreteIntOrAbort(nT, 70, "unsafe.String len")
		if n == 0 {
			return StringV{}
		}
		p := args[0].(Pointer)
		last := p.Path[len(p.Path)-1]
		arrPtr := Pointer{Obj: p.Obj, Path: p.Path[:len(p.Path)-1]}
		av := ex.load(arrPtr, "unsafe.String").(*ArrayV)
		bs := make([]*Term, n)
		for i := 0; i < n; i++ {
			bs[i] = av.Elems[last.Idx+i].(*Term)
		}
		return StringV{B: bs}
	case "StringData":
		s := args[0].(StringV)
		if len(s.B) == 0 {
			return Pointer{}
		}
		elems := make([]Value, len(s.B))
		for i, b := range s.B {
			elems[i] = b
		}
		sl := ex.newSlice(types.Typ[types.Uint8], elems, len(elems), "stringdata")
		return Pointer{Obj: sl.Arr.Obj, Path: []PathElem{{Idx: 0}}}
	}
	ex.unsupported("builtin %s at %s", name, ex.posOf(site))
	return nil
}

func (ex *Exec) appendBuiltin(args []Value, call *ssa.CallCommon, site ssa.Instruction) Value {
	s, _ := args[0].(SliceV)
	var add []Value
	switch a := args[1].(type) {
	case SliceV:
		add = append([]Value(nil), ex.sliceElems(a)...)
	case StringV:
		for _, b := range a.B {
			add = append(add, b)
		}
	default:
		ex.unsupported("append of %T", args[1])
	}
	if len(add) == 0 {
		return s
	}
	var elem types.Type
	if call != nil {
		elem = call.Args[0].Type().Underlying().(*types.Slice).Elem()
	} else if s.Arr.Obj != nil {
		elem = typeAt(s.Arr.Obj.Typ, s.Arr.Path).Underlying().(*types.Array).Elem()
	} else {
		ex.unsupported("append without element type")
	}
	need := s.Len + len(add)
	if s.Arr.Obj != nil && need <= s.Cap {
		av := ex.load(s.Arr, "append").(*ArrayV)
		es := make([]Value, len(av.Elems))
		copy(es, av.Elems)
		for i, v := range add {
			es[s.Off+s.Len+i] = v
		}
		ex.store(s.Arr, &ArrayV{Elems: es}, "append")
		return SliceV{Arr: s.Arr, Off: s.Off, Len: need, Cap: s.Cap}
	}
	// reallocate: Go leaves the new capacity unspecified; model the documented growth rule
	newCap := s.Cap * 2
	if newCap < need {
		newCap = need
	}
	old := ex.sliceElems(s)
	all := make([]Value, 0, newCap)
	all = append(all, old...)
	all = append(all, add...)
	return ex.newSlice(elem, all, newCap, ex.posOf(site))
}

// ---------- intrinsics registry

var intrinsics = map[string]intrinsicFn{}

func registerIntrinsic(name string, f intrinsicFn) { intrinsics[name] = f }

func (ex *Exec) intrinsic(fn *ssa.Function) intrinsicFn {
	name := fn.Name()
	if strings.HasPrefix(name, "vx") && fn.Pkg != nil {
		if h, ok := vxAPI[name]; ok {
			return h
		}
	}
	full := fn.String()
	if h, ok := intrinsics[full]; ok {
		return h
	}
	if o := fn.Origin(); o != nil {
		if h, ok := intrinsics[o.String()]; ok {
			return h
		}
	}
	return nil
}

// ---------- harness API

var vxAPI = map[string]intrinsicFn{}

func argString(ex *Exec, v Value) string {
	s, ok := v.(StringV)
	if !ok {
		ex.unsupported("vx: name argument is not a string")
	}
	cs, ok := concreteString(s)
	if !ok {
		ex.unsupported("vx: name argument is symbolic")
	}
	return cs
}

func argInt(ex *Exec, v Value) int {
	t, ok := v.(*Term)
	if !ok || !t.Const {
		ex.unsupported("vx: integer argument must be concrete")
	}
	return int(t.BigS().Int64())
}

func (ex *Exec) declareInput(name, kind string, t *Term) {
	if ex.specDepth > 0 {
		panic(&specAbort{"input declared in speculated arm"})
	}
	if ex.inputSet[name] {
		ex.unsupported("vx: input %q declared twice", name)
	}
	ex.inputSet[name] = true
	ex.inputs = append(ex.inputs, InputDecl{Name: name, Kind: kind, Term: t})
}

// symbolic integer of a Go type
func (ex *Exec) inputInt(name, kind string, ii intInfo) *Term {
	if ex.intMode {
		v := ex.ts.Var("in:"+name, IntSort)
		ex.declareInput(name, kind, v)
		ex.assertPC(ex.ts.And(ex.ts.IntCmp(">=", v, ex.ts.IntConst(ii.lo())), ex.ts.IntCmp("<=", v, ex.ts.IntConst(ii.hi()))))
		return v
	}
	v := ex.ts.Var("in:"+name, BV(ii.w))
	ex.declareInput(name, kind, v)
	return v
}

const defaultBigW = 192

func (ex *Exec) bigConst(v *big.Int) *Term {
	if ex.intMode {
		return ex.ts.IntConst(v)
	}
	return ex.ts.BVBig(ex.bigW, v)
}

func init() {
	mkInt := func(kind string, w int, signed bool) intrinsicFn {
		return func(ex *Exec, fr *Frame, fn *ssa.Function, args []Value, site ssa.Instruction) Value {
			return ex.inputInt(argString(ex, args[0]), kind, intInfo{w, signed})
		}
	}
	vxAPI["vxInt"] = mkInt("int", 64, true)
	vxAPI["vxInt8"] = mkInt("int8", 8, true)
	vxAPI["vxInt16"] = mkInt("int16", 16, true)
	vxAPI["vxInt32"] = mkInt("int32", 32, true)
	vxAPI["vxInt64"] = mkInt("int64", 64, true)
	vxAPI["vxUint"] = mkInt("uint", 64, false)
	vxAPI["vxUint8"] = mkInt("uint8", 8, false)
	vxAPI["vxUint16"] = mkInt("uint16", 16, false)
	vxAPI["vxUint32"] = mkInt("uint32", 32, false)
	vxAPI["vxUint64"] = mkInt("uint64", 64, false)
	vxAPI["vxBool"] = func(ex *Exec, fr *Frame, fn *ssa.Function, args []Value, site ssa.Instruction) Value {
		name := argString(ex, args[0])
		v := ex.ts.Var("in:"+name, BoolSort)
		ex.declareInput(name, "bool", v)
		return v
	}
	vxAPI["vxFloat64"] = func(ex *Exec, fr *Frame, fn *ssa.Function, args []Value, site ssa.Instruction) Value {
		name := argString(ex, args[0])
		if ex.intMode {
			ex.unsupported("floats in int mode")
		}
		// the input is the bit pattern, so that NaN payloads and signed zeros replay exactly
		b := ex.ts.Var("in:"+name, BV(64))
		ex.declareInput(name, "float64", b)
		return ex.ts.FPFromBits(F64Sort, b)
	}
	vxAPI["vxFloat32"] = func(ex *Exec, fr *Frame, fn *ssa.Function, args []Value, site ssa.Instruction) Value {
		name := argString(ex, args[0])
		if ex.intMode {
			ex.unsupported("floats in int mode")
		}
		b := ex.ts.Var("in:"+name, BV(32))
		ex.declareInput(name, "float32", b)
		return ex.ts.FPFromBits(F32Sort, b)
	}
	bytesOf := func(ex *Exec, name string, n int) []*Term {
		bs := make([]*Term, n)
		for i := range bs {
			bs[i] = ex.inputInt(fmt.Sprintf("%s[%d]", name, i), "uint8", intInfo{8, false})
		}
		return bs
	}
	vxAPI["vxBytes"] = func(ex *Exec, fr *Frame, fn *ssa.Function, args []Value, site ssa.Instruction) Value {
		name, n := argString(ex, args[0]), argInt(ex, args[1])
		bs := bytesOf(ex, name, n)
		elems := make([]Value, n)
		for i, b := range bs {
			elems[i] = b
		}
		return ex.newSlice(types.Typ[types.Uint8], elems, n, "vxBytes "+name)
	}
	vxAPI["vxString"] = func(ex *Exec, fr *Frame, fn *ssa.Function, args []Value, site ssa.Instruction) Value {
		name, n := argString(ex, args[0]), argInt(ex, args[1])
		return StringV{B: bytesOf(ex, name, n)}
	}
	vxAPI["vxBig"] = func(ex *Exec, fr *Frame, fn *ssa.Function, args []Value, site ssa.Instruction) Value {
		name := argString(ex, args[0])
		var v *Term
		if ex.intMode {
			v = ex.ts.Var("in:"+name, IntSort)
			ex.declareInput(name, "big", v)
		} else {
			w := ex.bigW
			v = ex.ts.Var("in:"+name, BV(w))
			ex.declareInput(name, fmt.Sprintf("bigbv:%d", w), v)
			// stated bound: |v| < 2^(W-66) (W-2 for narrow widths) so that sums, products by
			// 64-bit factors and shifts by < 64 stay exact
			lb := w - 66
			if lb < 66 {
				lb = w - 2
			}
			lim := new(big.Int).Lsh(big.NewInt(1), uint(lb))
			ex.assertPC(ex.ts.And(ex.ts.BVCmp("bvslt", v, ex.ts.BVBig(w, lim)), ex.ts.BVCmp("bvsgt", v, ex.ts.BVBig(w, new(big.Int).Neg(lim)))))
			ex.assumptions[fmt.Sprintf("big integers in bv mode are %d-bit two's complement with |v| < 2^%d", w, lb)] = true
		}
		rt := fn.Signature.Results().At(0).Type().(*types.Pointer).Elem()
		o := ex.newObjectWith(rt, "vxBig "+name, BigV{T: v})
		return Pointer{Obj: o}
	}
	vxAPI["vxSplit"] = func(ex *Exec, fr *Frame, fn *ssa.Function, args []Value, site ssa.Instruction) Value {
		name, n := argString(ex, args[0]), argInt(ex, args[1])
		v, ok := ex.splits[name]
		if !ok {
			panic(&pathAbort{Kind: "split", Msg: fmt.Sprintf("%s:%d", name, n)})
		}
		if v >= n {
			ex.unsupported(fmt.Sprintf("vxSplit(%q, %d) after a split of the same name with more values", name, n))
		}
		if ex.splitN == nil {
			ex.splitN = map[string]int{}
		}
		if m, seen := ex.splitN[name]; seen && m != n {
			// the jobs were made from the first call: a second call with another count is not explored
			ex.unsupported(fmt.Sprintf("vxSplit(%q) called with %d and %d values in one run", name, m, n))
		}
		ex.splitN[name] = n
		return ex.goInt(int64(v))
	}
	vxAPI["vxChoose"] = func(ex *Exec, fr *Frame, fn *ssa.Function, args []Value, site ssa.Instruction) Value {
		name, n := argString(ex, args[0]), argInt(ex, args[1])
		v := ex.inputInt(name, "int", intInfo{64, true})
		conds := make([]*Term, n)
		for i := range conds {
			conds[i] = ex.ts.Eq(v, ex.goInt(int64(i)))
		}
		i := ex.decide(conds, "vxChoose "+name)
		return ex.goInt(int64(i))
	}
	vxAPI["vxAssume"] = func(ex *Exec, fr *Frame, fn *ssa.Function, args []Value, site ssa.Instruction) Value {
		c := args[0].(*Term)
		ex.assume(c, ex.posOf(site))
		return nil
	}
	vxAPI["vxAssert"] = func(ex *Exec, fr *Frame, fn *ssa.Function, args []Value, site ssa.Instruction) Value {
		c := args[0].(*Term)
		ex.assertion(c, argString(ex, args[1]), ex.posOf(site))
		return nil
	}
	vxAPI["vxCover"] = func(ex *Exec, fr *Frame, fn *ssa.Function, args []Value, site ssa.Instruction) Value {
		ex.covers[argString(ex, args[0])] = true
		return nil
	}
	vxAPI["vxUnwind"] = func(ex *Exec, fr *Frame, fn *ssa.Function, args []Value, site ssa.Instruction) Value {
		ex.unwind = argInt(ex, args[0])
		return nil
	}
	vxAPI["vxMode"] = func(ex *Exec, fr *Frame, fn *ssa.Function, args []Value, site ssa.Instruction) Value {
		m := argString(ex, args[0])
		if len(ex.inputs) > 0 {
			ex.unsupported("vxMode after inputs were declared")
		}
		ex.intMode = m == "int"
		if ex.intMode {
			if len(ex.globals) > 0 || len(ex.memLayers[0]) > 0 {
				ex.unsupported("vxMode must be the first statement of the harness")
			}
			ex.snapshot = ex.snapshotInt
			ex.nextObj = ex.snapshot.nextObj
		}
		return nil
	}
	vxAPI["vxNote"] = func(ex *Exec, fr *Frame, fn *ssa.Function, args []Value, site ssa.Instruction) Value {
		ex.assumptions[argString(ex, args[0])] = true
		return nil
	}
	vxAPI["vxExpectPanic"] = func(ex *Exec, fr *Frame, fn *ssa.Function, args []Value, site ssa.Instruction) Value {
		ex.expectPanic = argString(ex, args[0])
		return nil
	}
	vxAPI["vxTier"] = func(ex *Exec, fr *Frame, fn *ssa.Function, args []Value, site ssa.Instruction) Value {
		return ex.goInt(int64(ex.tier))
	}
	vxAPI["vxSymbolic"] = func(ex *Exec, fr *Frame, fn *ssa.Function, args []Value, site ssa.Instruction) Value {
		return ex.ts.True()
	}
	// vxIsConcrete(x int) bool: true when the engine holds a constant (always true natively)
	vxAPI["vxOpaqueString"] = func(ex *Exec, fr *Frame, fn *ssa.Function, args []Value, site ssa.Instruction) Value {
		return ex.strConst("<opaque>")
	}
}

func (ex *Exec) assume(c *Term, site string) {
	if ex.specDepth > 0 {
		panic(&specAbort{"assume in speculated arm"})
	}
	if c.IsTrue() {
		return
	}
	if c.IsFalse() {
		panic(&pathAbort{Kind: "assume-false", Msg: site})
	}
	if ex.decIdx < len(ex.prefix) {
		// replaying a prefix: feasibility was established when the path was first explored
		ex.assertPC(c)
		return
	}
	r := ex.sol.Check(c)
	if r == "unsat" {
		panic(&pathAbort{Kind: "assume-false", Msg: site})
	}
	ex.assertPC(c)
}

func (ex *Exec) assertion(c *Term, id, site string) {
	if ex.specDepth > 0 {
		panic(&specAbort{"assert in speculated arm"})
	}
	ex.reached[id]++
	if c.IsTrue() {
		ex.discharged[id]++
		return
	}
	neg := ex.ts.Not(c)
	if c.IsFalse() {
		ex.recordViolation("assert", id, "assertion is false on this path", site, nil)
		panic(&pathAbort{Kind: "done", Msg: "assertion false"})
	}
	r := ex.sol.Check(neg)
	switch r {
	case "unsat":
		ex.discharged[id]++
		return
	case "sat":
		ex.recordViolation("assert", id, "assertion can be false", site, neg)
		// keep going without assuming the assertion: later assertions on this path are
		// still examined for every input, including the ones that violate this one
		return
	default:
		ex.inconclusive = append(ex.inconclusive, Inconclusive{Harness: ex.harness, Where: id + " at " + site, Reason: "solver unknown"})
	}
	// continue under the assertion when possible
	if ex.sol.Check(c) == "unsat" {
		panic(&pathAbort{Kind: "done", Msg: "assertion always false here"})
	}
	ex.assertPC(c)
}

func (ex *Exec) inputTerms() []*Term {
	out := make([]*Term, len(ex.inputs))
	for i, in := range ex.inputs {
		out[i] = in.Term
	}
	return out
}

func (ex *Exec) recordViolation(kind, id, msg, site string, extra *Term) {
	st, model := ex.sol.Model(extra, ex.inputTerms())
	if st != "sat" {
		ex.inconclusive = append(ex.inconclusive, Inconclusive{Harness: ex.harness, Where: id + " at " + site, Reason: "model query " + st})
		return
	}
	m := map[string]string{}
	for _, in := range ex.inputs {
		if v, ok := model[in.Term.Name]; ok {
			m[in.Name] = v
		}
	}
	for k, v := range ex.notes {
		m[k] = v
	}
	kinds := map[string]string{}
	for _, in := range ex.inputs {
		kinds[in.Name] = in.Kind
	}
	v := Violation{Harness: ex.harness, Assertion: id, Kind: kind, Msg: msg, Site: site, Model: m, Decisions: append([]int(nil), ex.trace...), Stack: ex.stackStrings(), Split: ex.splits, Kinds: kinds}
	if ex.threads != nil && kind != "race" {
		v.Sched = append([]int(nil), ex.threads.schedule...)
	}
	ex.violations = append(ex.violations, v)
}
