package main

// Semantics of the non-control go/ssa instructions.

import (
	"fmt"
	"go/token"
	"go/types"
	"math/big"

	"golang.org/x/tools/go/ssa"
)

func (ex *Exec) exec(fr *Frame, ins ssa.Instruction) {
	switch x := ins.(type) {
	case *ssa.Alloc:
		et := x.Type().(*types.Pointer).Elem()
		o := ex.newObject(et, ex.posOf(x))
		ex.set(fr, x, Pointer{Obj: o})
	case *ssa.BinOp:
		ex.set(fr, x, ex.binop(x.Op, ex.get(fr, x.X), ex.get(fr, x.Y), x.X.Type(), x.Y.Type(), x))
	case *ssa.UnOp:
		ex.set(fr, x, ex.unop(fr, x))
	case *ssa.Call:
		ex.set(fr, x, ex.doCall(fr, &x.Call, x))
	case *ssa.ChangeType:
		ex.set(fr, x, ex.get(fr, x.X))
	case *ssa.Convert:
		ex.set(fr, x, ex.convert(ex.get(fr, x.X), x.X.Type(), x.Type(), x))
	case *ssa.MultiConvert:
		ex.set(fr, x, ex.convert(ex.get(fr, x.X), x.X.Type(), x.Type(), x))
	case *ssa.ChangeInterface:
		ex.set(fr, x, ex.get(fr, x.X))
	case *ssa.MakeInterface:
		ex.set(fr, x, IfaceV{T: x.X.Type(), V: ex.get(fr, x.X)})
	case *ssa.Extract:
		t := ex.get(fr, x.Tuple)
		tv, ok := t.(TupleV)
		if !ok {
			if op, isOp := t.(Opaque); isOp {
				ex.set(fr, x, op)
				return
			}
			ex.unsupported("extract from %T", t)
		}
		ex.set(fr, x, tv[x.Index])
	case *ssa.Field:
		sv := ex.get(fr, x.X)
		st, ok := sv.(*StructV)
		if !ok {
			if op, isOp := sv.(Opaque); isOp {
				ex.set(fr, x, op)
				return
			}
			ex.unsupported("field of %T", sv)
		}
		ex.set(fr, x, st.Fields[x.Field])
	case *ssa.FieldAddr:
		pv := ex.get(fr, x.X)
		p, ok := pv.(Pointer)
		if !ok {
			p = ex.toPointer(pv, x.X.Type(), x)
		}
		if p.Obj == nil {
			ex.goPanicRuntime("invalid memory address or nil pointer dereference", ex.posOf(x))
		}
		ex.set(fr, x, Pointer{Obj: p.Obj, Path: appendPath(p.Path, PathElem{Idx: x.Field})})
	case *ssa.Index:
		ex.set(fr, x, ex.index(fr, x))
	case *ssa.IndexAddr:
		ex.set(fr, x, ex.indexAddr(fr, x))
	case *ssa.Slice:
		ex.set(fr, x, ex.slice(fr, x))
	case *ssa.Store:
		pv := ex.get(fr, x.Addr)
		p, ok := pv.(Pointer)
		if !ok {
			p = ex.toPointer(pv, x.Addr.Type(), x)
		}
		ex.storeTyped(p, ex.get(fr, x.Val), x.Val.Type(), ex.posOf(x))
	case *ssa.MakeClosure:
		bind := make([]Value, len(x.Bindings))
		for i, b := range x.Bindings {
			bind[i] = ex.get(fr, b)
		}
		ex.set(fr, x, &FuncV{Fn: x.Fn.(*ssa.Function), Bind: bind})
	case *ssa.MakeSlice:
		ex.set(fr, x, ex.makeSlice(fr, x))
	case *ssa.MakeMap:
		o := ex.newObjectWith(x.Type(), ex.posOf(x), &MapData{})
		ex.set(fr, x, MapV{Obj: o})
	case *ssa.MakeChan:
		ex.set(fr, x, ex.makeChan(fr, x))
	case *ssa.Lookup:
		ex.set(fr, x, ex.lookup(fr, x))
	case *ssa.MapUpdate:
		ex.mapUpdate(ex.get(fr, x.Map), ex.get(fr, x.Key), ex.get(fr, x.Value), x)
	case *ssa.TypeAssert:
		ex.set(fr, x, ex.typeAssert(fr, x))
	case *ssa.Range:
		ex.set(fr, x, ex.rangeInit(fr, x))
	case *ssa.Next:
		ex.set(fr, x, ex.rangeNext(fr, x))
	case *ssa.Defer:
		if ex.specDepth > 0 {
			panic(&specAbort{"defer in speculated arm"})
		}
		fv, args := ex.prepareCall(fr, &x.Call, x)
		fr.defers = append(fr.defers, deferred{fn: fv, args: args, call: &x.Call})
	case *ssa.RunDefers:
		if ex.specDepth > 0 && len(fr.defers) > 0 {
			panic(&specAbort{"rundefers in speculated arm"})
		}
		ex.runDefersOf(fr)
	case *ssa.Go:
		ex.goStmt(fr, x)
	case *ssa.Send:
		ex.chanSend(fr, ex.get(fr, x.Chan), ex.get(fr, x.X), x)
	case *ssa.Select:
		ex.set(fr, x, ex.selectStmt(fr, x))
	case *ssa.SliceToArrayPointer:
		sv := ex.get(fr, x.X).(SliceV)
		n := int(x.Type().(*types.Pointer).Elem().Underlying().(*types.Array).Len())
		if sv.Len < n {
			ex.goPanicRuntime("cannot convert slice to array pointer: length too short", ex.posOf(x))
		}
		if n == 0 || sv.Arr.Obj == nil {
			ex.set(fr, x, Pointer{})
			return
		}
		ex.unsupported("slice to array pointer")
	case *ssa.DebugRef:
	default:
		ex.unsupported("instruction %T at %s", ins, ex.posOf(ins))
	}
}

// ---------- integer helpers

type intInfo struct {
	w      int
	signed bool
}

func intInfoOf(t types.Type) (intInfo, bool) {
	b, ok := t.Underlying().(*types.Basic)
	if !ok || b.Info()&types.IsInteger == 0 {
		return intInfo{}, false
	}
	w, s, ok := intWidth(b)
	return intInfo{w, s}, ok
}

func (ii intInfo) lo() *big.Int {
	if !ii.signed {
		return big.NewInt(0)
	}
	return new(big.Int).Neg(new(big.Int).Lsh(big.NewInt(1), uint(ii.w-1)))
}
func (ii intInfo) hi() *big.Int {
	if !ii.signed {
		return new(big.Int).Sub(new(big.Int).Lsh(big.NewInt(1), uint(ii.w)), big.NewInt(1))
	}
	return new(big.Int).Sub(new(big.Int).Lsh(big.NewInt(1), uint(ii.w-1)), big.NewInt(1))
}
func (ii intInfo) size() *big.Int { return new(big.Int).Lsh(big.NewInt(1), uint(ii.w)) }

// wrap1 wraps a mathematical Int that is at most one modulus outside the range.
func (ex *Exec) wrap1(t *Term, ii intInfo) *Term {
	ts := ex.ts
	lo, hi, sz := ts.IntConst(ii.lo()), ts.IntConst(ii.hi()), ts.IntConst(ii.size())
	return ts.Ite(ts.IntCmp(">", t, hi), ts.IntBin("-", t, sz),
		ts.Ite(ts.IntCmp("<", t, lo), ts.IntBin("+", t, sz), t))
}

// wrapMod wraps any mathematical Int into the range of the type.
// Non-linear arguments use a witness: r = t - k*2^w with lo <= r <= hi (k, r fresh and
// uniquely determined by t, so adding the definition never constrains the inputs).
func (ex *Exec) wrapMod(t *Term, ii intInfo) *Term {
	ts := ex.ts
	if t.Const {
		m := new(big.Int).Mod(new(big.Int).Sub(t.B, ii.lo()), ii.size())
		return ts.IntConst(m.Add(m, ii.lo()))
	}
	lo, hi, sz := ts.IntConst(ii.lo()), ts.IntConst(ii.hi()), ts.IntConst(ii.size())
	if !ex.useWitness(t) {
		return ts.IntBin("+", ts.IntBin("mod", ts.IntBin("-", t, lo), sz), lo)
	}
	k := ex.freshVar("wrapk", IntSort)
	r := ex.freshVar("wrapr", IntSort)
	ex.define(ts.And(ts.Eq(r, ts.IntBin("-", t, ts.IntBin("*", k, sz))), ts.And(ts.IntCmp(">=", r, lo), ts.IntCmp("<=", r, hi))))
	return r
}

// useWitness: products and quotients of two symbolic terms are non-linear
func (ex *Exec) useWitness(t *Term) bool {
	seen := map[*Term]bool{}
	var nl func(t *Term) bool
	nl = func(t *Term) bool {
		if seen[t] {
			return false
		}
		seen[t] = true
		if (t.Op == "*" || t.Op == "div" || t.Op == "mod") && !t.Args[0].Const && !t.Args[1].Const {
			return true
		}
		for _, a := range t.Args {
			if nl(a) {
				return true
			}
		}
		return false
	}
	return nl(t)
}

// define adds a definitional constraint over fresh variables to the solver context.
func (ex *Exec) define(c *Term) {
	ex.pc = append(ex.pc, c)
	if ex.sol != nil {
		ex.sol.Assert(c)
	}
}

// divWitness returns (q, r) with x = q*y + r, |r| < |y|, r = 0 or sign(r) = sign(x):
// truncated division. Defined under y != 0 (the caller has established it on this path).
func (ex *Exec) divWitness(x, y *Term) (*Term, *Term) {
	ts := ex.ts
	if ex.divCache == nil {
		ex.divCache = map[[2]*Term][2]*Term{}
	}
	if c, ok := ex.divCache[[2]*Term{x, y}]; ok {
		return c[0], c[1]
	}
	zero := ts.IntConst64(0)
	q := ex.freshVar("divq", IntSort)
	r := ex.freshVar("divr", IntSort)
	def := ts.And(ts.Eq(x, ts.IntBin("+", ts.IntBin("*", q, y), r)),
		ts.And(ts.IntCmp("<", ts.IntAbs(r), ts.IntAbs(y)),
			ts.Or(ts.Eq(r, zero), ts.Eq(ts.IntCmp("<", r, zero), ts.IntCmp("<", x, zero)))))
	ex.define(ts.Implies(ts.Not(ts.Eq(y, zero)), def))
	ex.divCache[[2]*Term{x, y}] = [2]*Term{q, r}
	return q, r
}

// truncated division on mathematical ints (y != 0 established by the caller)
func (ex *Exec) tdiv(x, y *Term) *Term {
	ts := ex.ts
	if x.Const && y.Const {
		return ts.IntConst(new(big.Int).Quo(x.B, y.B))
	}
	if !x.Const && !y.Const {
		q, _ := ex.divWitness(x, y)
		return q
	}
	zero := ts.IntConst64(0)
	q := ts.IntBin("div", ts.IntAbs(x), ts.IntAbs(y))
	sameSign := ts.Eq(ts.IntCmp("<", x, zero), ts.IntCmp("<", y, zero))
	return ts.Ite(sameSign, q, ts.IntNeg(q))
}

func (ex *Exec) trem(x, y *Term) *Term {
	ts := ex.ts
	if x.Const && y.Const {
		return ts.IntConst(new(big.Int).Rem(x.B, y.B))
	}
	if !x.Const && !y.Const {
		_, r := ex.divWitness(x, y)
		return r
	}
	zero := ts.IntConst64(0)
	r := ts.IntBin("mod", ts.IntAbs(x), ts.IntAbs(y))
	return ts.Ite(ts.IntCmp("<", x, zero), ts.IntNeg(r), r)
}

func (ex *Exec) intConstOf(t types.Type, v int64) *Term {
	if ex.intMode {
		return ex.ts.IntConst64(v)
	}
	ii, _ := intInfoOf(t)
	return ex.ts.BVSigned(ii.w, v)
}

func (ex *Exec) goInt(v int64) *Term {
	if ex.intMode {
		return ex.ts.IntConst64(v)
	}
	return ex.ts.BVSigned(64, v)
}

// concrete int from a term, or concretize by forking
func (ex *Exec) concreteInt(t *Term, limit int, what string) int {
	c := ex.concretize(t, limit, what)
	return int(c.BigS().Int64())
}

// ---------- binary operations

func (ex *Exec) binop(op token.Token, a, b Value, ta, tb types.Type, site ssa.Instruction) Value {
	ts := ex.ts
	if _, ok := a.(Opaque); ok {
		return a
	}
	if _, ok := b.(Opaque); ok {
		return b
	}
	switch op {
	case token.EQL:
		return ex.valueEq(a, b, ta, site)
	case token.NEQ:
		return ts.Not(ex.valueEq(a, b, ta, site))
	}
	// address arithmetic
	if aa, ok := a.(Addr); ok {
		if r := ex.addrBinop(op, aa, b, site); r != nil {
			return r
		}
		// arithmetic that is not meaningful on addresses (garbage computed from stale data):
		// fall back to the flat integer view of the address (an over-approximation)
		a = ex.flatAddr(aa)
		if ba, ok := b.(Addr); ok {
			b = ex.flatAddr(ba)
		} else if bp, ok := b.(Pointer); ok {
			if fa, ok := ex.ptrToAddr(bp).(Addr); ok {
				b = ex.flatAddr(fa)
			}
		}
	} else if ba, ok := b.(Addr); ok {
		if op == token.ADD {
			if r := ex.addrBinop(op, ba, a, site); r != nil {
				return r
			}
		}
		b = ex.flatAddr(ba)
	}
	switch x := a.(type) {
	case *Term:
		y, ok := b.(*Term)
		if !ok {
			ex.unsupported("binop %s on %T and %T", op, a, b)
		}
		switch x.Sort.K {
		case SBV:
			return ex.bvBinop(op, x, y, ta, tb, site)
		case SInt:
			return ex.intBinop(op, x, y, ta, tb, site)
		case SFP32, SFP64:
			switch op {
			case token.ADD:
				return ts.FPBin("fp.add", x, y)
			case token.SUB:
				return ts.FPBin("fp.sub", x, y)
			case token.MUL:
				return ts.FPBin("fp.mul", x, y)
			case token.QUO:
				return ts.FPBin("fp.div", x, y)
			case token.LSS:
				return ts.FPCmp("fp.lt", x, y)
			case token.LEQ:
				return ts.FPCmp("fp.leq", x, y)
			case token.GTR:
				return ts.FPCmp("fp.gt", x, y)
			case token.GEQ:
				return ts.FPCmp("fp.geq", x, y)
			}
		case SBool:
			switch op {
			case token.AND, token.LAND:
				return ts.And(x, y)
			case token.OR, token.LOR:
				return ts.Or(x, y)
			case token.XOR:
				return ts.Not(ts.Eq(x, y))
			}
		}
	case StringV:
		y := b.(StringV)
		switch op {
		case token.ADD:
			bs := make([]*Term, 0, len(x.B)+len(y.B))
			bs = append(bs, x.B...)
			bs = append(bs, y.B...)
			return StringV{B: bs}
		case token.LSS:
			return ex.stringLess(x, y, false)
		case token.LEQ:
			return ex.stringLess(x, y, true)
		case token.GTR:
			return ex.stringLess(y, x, false)
		case token.GEQ:
			return ex.stringLess(y, x, true)
		}
	case Pointer:
		// pointer compared as uintptr after conversion is handled via Addr; nothing else here
	}
	ex.unsupported("binop %s on %s / %s at %s", op, describe(a), describe(b), ex.posOf(site))
	return nil
}

func (ex *Exec) byteLess(a, b *Term) *Term {
	if ex.intMode {
		return ex.ts.IntCmp("<", a, b)
	}
	return ex.ts.BVCmp("bvult", a, b)
}

func (ex *Exec) stringLess(x, y StringV, orEq bool) *Term {
	ts := ex.ts
	// lexicographic; result for position i: x[i]<y[i] or (x[i]==y[i] and rest)
	n := len(x.B)
	if len(y.B) < n {
		n = len(y.B)
	}
	var rest *Term
	if len(x.B) < len(y.B) {
		rest = ts.True()
	} else if len(x.B) == len(y.B) {
		rest = ts.Bool(orEq)
	} else {
		rest = ts.False()
	}
	for i := n - 1; i >= 0; i-- {
		rest = ts.Or(ex.byteLess(x.B[i], y.B[i]), ts.And(ts.Eq(x.B[i], y.B[i]), rest))
	}
	return rest
}

func (ex *Exec) bvBinop(op token.Token, x, y *Term, ta, tb types.Type, site ssa.Instruction) Value {
	ts := ex.ts
	ii, _ := intInfoOf(ta)
	if ii.w == 0 {
		ii = intInfo{x.Sort.W, true}
	}
	switch op {
	case token.ADD:
		return ts.BVBin("bvadd", x, y)
	case token.SUB:
		return ts.BVBin("bvsub", x, y)
	case token.MUL:
		return ts.BVBin("bvmul", x, y)
	case token.AND:
		return ts.BVBin("bvand", x, y)
	case token.OR:
		return ts.BVBin("bvor", x, y)
	case token.XOR:
		return ts.BVBin("bvxor", x, y)
	case token.AND_NOT:
		return ts.BVBin("bvand", x, ts.BVNot(y))
	case token.QUO, token.REM:
		ex.check(ts.Not(ts.Eq(y, ts.BVConst(y.Sort.W, 0))), "integer divide by zero", ex.posOf(site))
		if ii.signed {
			if op == token.QUO {
				return ts.BVBin("bvsdiv", x, y)
			}
			return ts.BVBin("bvsrem", x, y)
		}
		if op == token.QUO {
			return ts.BVBin("bvudiv", x, y)
		}
		return ts.BVBin("bvurem", x, y)
	case token.SHL, token.SHR:
		iy, _ := intInfoOf(tb)
		if iy.w == 0 {
			iy = intInfo{y.Sort.W, false}
		}
		if iy.signed {
			ex.check(ts.BVCmp("bvsge", y, ts.BVConst(y.Sort.W, 0)), "negative shift amount", ex.posOf(site))
		}
		w := x.Sort.W
		var cnt *Term
		switch {
		case y.Sort.W == w:
			cnt = y
		case y.Sort.W < w:
			cnt = ts.ZeroExt(y, w)
		default:
			big := ts.BVCmp("bvuge", y, ts.BVConst(y.Sort.W, uint64(w)))
			cnt = ts.Ite(big, ts.BVConst(w, uint64(w)), ts.Extract(w-1, 0, y))
		}
		if op == token.SHL {
			return ts.BVBin("bvshl", x, cnt)
		}
		if ii.signed {
			return ts.BVBin("bvashr", x, cnt)
		}
		return ts.BVBin("bvlshr", x, cnt)
	case token.LSS, token.LEQ, token.GTR, token.GEQ:
		pre := "bvu"
		if ii.signed {
			pre = "bvs"
		}
		suf := map[token.Token]string{token.LSS: "lt", token.LEQ: "le", token.GTR: "gt", token.GEQ: "ge"}[op]
		return ts.BVCmp(pre+suf, x, y)
	}
	ex.unsupported("bv binop %s", op)
	return nil
}

func (ex *Exec) intBinop(op token.Token, x, y *Term, ta, tb types.Type, site ssa.Instruction) Value {
	ts := ex.ts
	ii, ok := intInfoOf(ta)
	if !ok {
		ex.unsupported("int-mode binop on %s", typeString(ta))
	}
	switch op {
	case token.ADD:
		return ex.wrap1(ts.IntBin("+", x, y), ii)
	case token.SUB:
		return ex.wrap1(ts.IntBin("-", x, y), ii)
	case token.MUL:
		return ex.wrapMod(ts.IntBin("*", x, y), ii)
	case token.QUO:
		ex.check(ts.Not(ts.Eq(y, ts.IntConst64(0))), "integer divide by zero", ex.posOf(site))
		return ex.wrap1(ex.tdiv(x, y), ii)
	case token.REM:
		ex.check(ts.Not(ts.Eq(y, ts.IntConst64(0))), "integer divide by zero", ex.posOf(site))
		return ex.trem(x, y)
	case token.LSS:
		return ts.IntCmp("<", x, y)
	case token.LEQ:
		return ts.IntCmp("<=", x, y)
	case token.GTR:
		return ts.IntCmp(">", x, y)
	case token.GEQ:
		return ts.IntCmp(">=", x, y)
	case token.SHL, token.SHR:
		iy, _ := intInfoOf(tb)
		if iy.signed {
			ex.check(ts.IntCmp(">=", y, ts.IntConst64(0)), "negative shift amount", ex.posOf(site))
		}
		if !y.Const {
			// 2^y for a bounded count: ite chain up to the width
			pow := ts.IntConst64(0)
			for k := ii.w - 1; k >= 0; k-- {
				pow = ts.Ite(ts.Eq(y, ts.IntConst64(int64(k))), ts.IntConst(new(big.Int).Lsh(big.NewInt(1), uint(k))), pow)
			}
			inRange := ts.IntCmp("<", y, ts.IntConst64(int64(ii.w)))
			if op == token.SHL {
				return ts.Ite(inRange, ex.wrapMod(ts.IntBin("*", x, pow), ii), ts.IntConst64(0))
			}
			fill := ts.IntConst64(0)
			if ii.signed {
				fill = ts.Ite(ts.IntCmp("<", x, ts.IntConst64(0)), ts.IntConst64(-1), ts.IntConst64(0))
			}
			return ts.Ite(inRange, ts.IntBin("div", x, pow), fill)
		}
		k := y.B
		if k.Cmp(big.NewInt(int64(ii.w))) >= 0 {
			if op == token.SHL || !ii.signed {
				return ts.IntConst64(0)
			}
			return ts.Ite(ts.IntCmp("<", x, ts.IntConst64(0)), ts.IntConst64(-1), ts.IntConst64(0))
		}
		p := ts.IntConst(new(big.Int).Lsh(big.NewInt(1), uint(k.Int64())))
		if op == token.SHL {
			return ex.wrapMod(ts.IntBin("*", x, p), ii)
		}
		return ts.IntBin("div", x, p) // floor division: arithmetic shift for negatives
	case token.AND, token.OR, token.XOR, token.AND_NOT:
		if x.Const && y.Const {
			r := new(big.Int)
			switch op {
			case token.AND:
				r.And(x.B, y.B)
			case token.OR:
				r.Or(x.B, y.B)
			case token.XOR:
				r.Xor(x.B, y.B)
			case token.AND_NOT:
				r.AndNot(x.B, y.B)
			}
			return ex.wrapMod(ts.IntConst(r), ii)
		}
		if op == token.AND {
			// x & (2^k-1)
			for _, pair := range [][2]*Term{{x, y}, {y, x}} {
				v, m := pair[0], pair[1]
				if m.Const && m.B.Sign() >= 0 {
					m1 := new(big.Int).Add(m.B, big.NewInt(1))
					if m1.BitLen() > 0 && new(big.Int).And(m1, m.B).Sign() == 0 {
						return ts.IntBin("mod", v, ts.IntConst(m1))
					}
				}
			}
		}
		// general case: go through bit-vectors (int2bv / bv2nat)
		bx, by := ts.Int2BV(ii.w, x), ts.Int2BV(ii.w, y)
		var r *Term
		switch op {
		case token.AND:
			r = ts.BVBin("bvand", bx, by)
		case token.OR:
			r = ts.BVBin("bvor", bx, by)
		case token.XOR:
			r = ts.BVBin("bvxor", bx, by)
		case token.AND_NOT:
			r = ts.BVBin("bvand", bx, ts.BVNot(by))
		}
		if ii.signed {
			return ts.BV2Int(r)
		}
		return ts.BV2Nat(r)
	}
	ex.unsupported("int binop %s", op)
	return nil
}

// flatAddr is the integer view of an address: a per-object base plus the offset. Bases are
// solver variables constrained only by what the Go memory model guarantees: objects are
// non-null, do not wrap around and do not overlap.
func (ex *Exec) flatAddr(a Addr) *Term {
	if a.Obj == nil {
		return a.Off
	}
	base := ex.flatBase(a.Obj)
	if ex.intMode {
		return ex.ts.IntBin("+", base, a.Off)
	}
	return ex.ts.BVBin("bvadd", base, a.Off)
}

type flatBaseInfo struct {
	v    *Term
	size int64
}

func (ex *Exec) flatBase(o *Object) *Term {
	if fb, ok := ex.flatBases[o.ID]; ok {
		return fb.v
	}
	ts := ex.ts
	size := int64(1)
	func() {
		defer func() { recover() }()
		if o.Typ != nil {
			if sz := sizes.Sizeof(o.Typ); sz > 0 {
				size = sz
			}
		}
	}()
	var v *Term
	le := func(a, b *Term) *Term {
		if ex.intMode {
			return ts.IntCmp("<=", a, b)
		}
		return ts.BVCmp("bvule", a, b)
	}
	add := func(a *Term, k int64) *Term {
		if ex.intMode {
			return ts.IntBin("+", a, ts.IntConst64(k))
		}
		return ts.BVBin("bvadd", a, ts.BVConst(64, uint64(k)))
	}
	konst := func(k int64) *Term {
		if ex.intMode {
			return ts.IntConst64(k)
		}
		return ts.BVConst(64, uint64(k))
	}
	if ex.intMode {
		v = ts.Var(fmt.Sprintf("base:obj%d", o.ID), IntSort)
	} else {
		v = ts.Var(fmt.Sprintf("base:obj%d", o.ID), BV(64))
	}
	c := ts.And(le(konst(4096), v), le(v, konst(1<<46)))
	for _, other := range ex.flatBases {
		c = ts.And(c, ts.Or(le(add(v, size), other.v), le(add(other.v, other.size), v)))
	}
	if ex.flatBases == nil {
		ex.flatBases = map[int]flatBaseInfo{}
	}
	ex.flatBases[o.ID] = flatBaseInfo{v: v, size: size}
	ex.assertPC(c)
	return v
}

func (ex *Exec) addrBinop(op token.Token, a Addr, b Value, site ssa.Instruction) Value {
	ts := ex.ts
	switch y := b.(type) {
	case *Term:
		switch op {
		case token.ADD:
			return Addr{Obj: a.Obj, Off: ex.offAdd(a.Off, y)}
		case token.SUB:
			return Addr{Obj: a.Obj, Off: ex.offSub(a.Off, y)}
		case token.LSS, token.LEQ, token.GTR, token.GEQ:
			// comparison of an address with a plain integer: only 0 is meaningful
			if y.Const && y.BigU().Sign() == 0 {
				switch op {
				case token.GTR, token.GEQ:
					return ts.True()
				default:
					return ts.False()
				}
			}
		}
	case Addr:
		if a.Obj != y.Obj {
			return nil // different objects: the caller falls back to the flat integer view
		}
		switch op {
		case token.SUB:
			return ex.offSub(a.Off, y.Off)
		case token.LSS:
			return ex.offCmp("lt", a.Off, y.Off)
		case token.LEQ:
			return ex.offCmp("le", a.Off, y.Off)
		case token.GTR:
			return ex.offCmp("gt", a.Off, y.Off)
		case token.GEQ:
			return ex.offCmp("ge", a.Off, y.Off)
		}
	case Pointer:
		return ex.addrBinop(op, a, ex.ptrToAddr(y), site)
	}
	return nil
}

func (ex *Exec) offAdd(a, b *Term) *Term {
	if ex.intMode {
		return ex.ts.IntBin("+", a, b)
	}
	return ex.ts.BVBin("bvadd", a, b)
}
func (ex *Exec) offSub(a, b *Term) *Term {
	if ex.intMode {
		// uintptr difference; keep it mathematical (may be negative = wrapped): wrap to uint64
		return ex.wrap1(ex.ts.IntBin("-", a, b), intInfo{64, false})
	}
	return ex.ts.BVBin("bvsub", a, b)
}
func (ex *Exec) offCmp(op string, a, b *Term) *Term {
	if ex.intMode {
		m := map[string]string{"lt": "<", "le": "<=", "gt": ">", "ge": ">="}
		return ex.ts.IntCmp(m[op], a, b)
	}
	return ex.ts.BVCmp("bvs"+op, a, b)
}

// ---------- equality

func (ex *Exec) valueEq(a, b Value, t types.Type, site ssa.Instruction) *Term {
	ts := ex.ts
	switch x := a.(type) {
	case *Term:
		y, ok := b.(*Term)
		if !ok {
			if ad, isAddr := b.(Addr); isAddr {
				return ex.valueEq(ad, x, t, site)
			}
			ex.unsupported("== between %T and %T", a, b)
		}
		if x.Sort.K == SFP32 || x.Sort.K == SFP64 {
			return ts.FPCmp("fp.eq", x, y)
		}
		return ts.Eq(x, y)
	case StringV:
		y := b.(StringV)
		if len(x.B) != len(y.B) {
			return ts.False()
		}
		r := ts.True()
		for i := range x.B {
			r = ts.And(r, ts.Eq(x.B[i], y.B[i]))
		}
		return r
	case Pointer:
		switch y := b.(type) {
		case Pointer:
			if x.Obj != y.Obj {
				return ts.False()
			}
			if x.Obj == nil {
				return ts.True()
			}
			if len(x.Path) != len(y.Path) {
				// same object, different depth: may still be the same address (first field); compare offsets
				return ex.valueEq(ex.ptrToAddr(x), ex.ptrToAddr(y), t, site)
			}
			r := ts.True()
			for i := range x.Path {
				ei, ej := x.Path[i], y.Path[i]
				if ei.Sym == nil && ej.Sym == nil {
					if ei.Idx != ej.Idx {
						return ts.False()
					}
					continue
				}
				ti, tj := ei.Sym, ej.Sym
				if ti == nil {
					ti = ex.idxConst(tj, ei.Idx)
				}
				if tj == nil {
					tj = ex.idxConst(ti, ej.Idx)
				}
				r = ts.And(r, ts.Eq(ti, tj))
			}
			return r
		case Addr:
			return ex.valueEq(ex.ptrToAddr(x), y, t, site)
		}
	case Addr:
		switch y := b.(type) {
		case Addr:
			if x.Obj != y.Obj {
				return ts.False()
			}
			return ts.Eq(x.Off, y.Off)
		case Pointer:
			if y.Obj == nil {
				return ts.False()
			}
			return ex.valueEq(x, ex.ptrToAddr(y), t, site)
		case *Term:
			if y.Const && y.BigU().Sign() == 0 {
				return ts.False()
			}
			ex.unsupported("address compared with integer %s", y)
		}
	case IfaceV:
		y, ok := b.(IfaceV)
		if !ok {
			ex.unsupported("== iface with %T", b)
		}
		if x.T == nil || y.T == nil {
			return ts.Bool(x.T == nil && y.T == nil)
		}
		if !types.Identical(x.T, y.T) {
			return ts.False()
		}
		if !types.Comparable(x.T) {
			panic(&GoPanic{Val: ex.runtimeErrorValue("comparing uncomparable type " + typeString(x.T)), Msg: "runtime error: comparing uncomparable type " + typeString(x.T), Runtime: true, Site: ex.posOf(site), Stack: ex.stackStrings()})
		}
		return ex.valueEq(x.V, y.V, x.T, site)
	case *StructV:
		y := b.(*StructV)
		r := ts.True()
		st, _ := t.Underlying().(*types.Struct)
		for i := range x.Fields {
			var ft types.Type
			if st != nil {
				ft = st.Field(i).Type()
			}
			r = ts.And(r, ex.valueEq(x.Fields[i], y.Fields[i], ft, site))
		}
		return r
	case *ArrayV:
		y := b.(*ArrayV)
		r := ts.True()
		var et types.Type
		if at, ok := t.Underlying().(*types.Array); ok {
			et = at.Elem()
		}
		for i := range x.Elems {
			r = ts.And(r, ex.valueEq(x.Elems[i], y.Elems[i], et, site))
		}
		return r
	case SliceV:
		y := b.(SliceV)
		if x.Arr.Obj == nil || y.Arr.Obj == nil {
			return ts.Bool(x.Arr.Obj == nil && y.Arr.Obj == nil)
		}
	case MapV:
		y := b.(MapV)
		return ts.Bool(x.Obj == y.Obj)
	case ChanV:
		y := b.(ChanV)
		return ts.Bool(x.Obj == y.Obj)
	case *FuncV:
		y, _ := b.(*FuncV)
		if x == nil || y == nil {
			return ts.Bool(x == nil && y == nil)
		}
	case BigV:
		y := b.(BigV)
		return ts.Eq(x.T, y.T)
	}
	ex.unsupported("== on %s and %s at %s", describe(a), describe(b), ex.posOf(site))
	return nil
}

// ---------- unary

func (ex *Exec) unop(fr *Frame, x *ssa.UnOp) Value {
	ts := ex.ts
	v := ex.get(fr, x.X)
	if op, ok := v.(Opaque); ok && x.Op != token.MUL {
		return op
	}
	switch x.Op {
	case token.MUL:
		p, ok := v.(Pointer)
		if !ok {
			p = ex.toPointer(v, x.X.Type(), x)
		}
		return ex.loadTyped(p, x.Type(), ex.posOf(x))
	case token.NOT:
		return ts.Not(v.(*Term))
	case token.SUB:
		t := v.(*Term)
		switch t.Sort.K {
		case SBV:
			return ts.BVNeg(t)
		case SInt:
			ii, _ := intInfoOf(x.Type())
			return ex.wrap1(ts.IntNeg(t), ii)
		default:
			return ts.FPNeg(t)
		}
	case token.XOR:
		t := v.(*Term)
		if t.Sort.K == SBV {
			return ts.BVNot(t)
		}
		// ^x = -x-1 (signed) ; unsigned: max - x
		ii, _ := intInfoOf(x.Type())
		if ii.signed {
			return ts.IntBin("-", ts.IntNeg(t), ts.IntConst64(1))
		}
		return ts.IntBin("-", ts.IntConst(ii.hi()), t)
	case token.ARROW:
		return ex.chanRecv(fr, v, x.CommaOk, x)
	}
	ex.unsupported("unop %s", x.Op)
	return nil
}

// ---------- typed load/store with reinterpretation through unsafe casts

func (ex *Exec) loadTyped(p Pointer, want types.Type, site string) Value {
	if p.Obj == nil {
		ex.goPanicRuntime("invalid memory address or nil pointer dereference", site)
	}
	have := typeAt(p.Obj.Typ, p.Path)
	v := ex.load(p, site)
	if have == nil || types.Identical(have, want) || types.Identical(have.Underlying(), want.Underlying()) {
		return v
	}
	return ex.reinterpret(v, have, want, p, site)
}

func (ex *Exec) storeTyped(p Pointer, v Value, vt types.Type, site string) {
	if p.Obj == nil {
		ex.goPanicRuntime("invalid memory address or nil pointer dereference", site)
	}
	have := typeAt(p.Obj.Typ, p.Path)
	if have != nil && !types.Identical(have, vt) && !types.Identical(have.Underlying(), vt.Underlying()) {
		v = ex.reinterpret(v, vt, have, p, site)
	}
	ex.store(p, v, site)
}

func isIfaceStruct(t types.Type) bool {
	st, ok := t.Underlying().(*types.Struct)
	if !ok || st.NumFields() != 2 {
		return false
	}
	b0, ok0 := st.Field(0).Type().Underlying().(*types.Basic)
	b1, ok1 := st.Field(1).Type().Underlying().(*types.Basic)
	return ok0 && ok1 && b0.Kind() == types.Uintptr && b1.Kind() == types.UnsafePointer
}

// reinterpret converts a stored value of type `have` to how the same bytes read as `want`.
func (ex *Exec) reinterpret(v Value, have, want types.Type, p Pointer, site string) Value {
	ts := ex.ts
	if op, ok := v.(Opaque); ok {
		return op
	}
	hi, hok := intInfoOf(have)
	wi, wok := intInfoOf(want)
	hb, _ := have.Underlying().(*types.Basic)
	wb, _ := want.Underlying().(*types.Basic)
	switch {
	case hok && wok && hi.w == wi.w:
		t, isT := v.(*Term)
		if !isT {
			if _, isAddr := v.(Addr); isAddr {
				return v
			}
			ex.unsupported("reinterpret int from %T", v)
		}
		if ex.intMode && hi.signed != wi.signed {
			return ex.wrap1(t, wi)
		}
		return t
	case hb != nil && wok && (hb.Kind() == types.Float64 && wi.w == 64 || hb.Kind() == types.Float32 && wi.w == 32):
		if ex.intMode {
			ex.unsupported("float bits in int mode")
		}
		return ts.FPBits(v.(*Term))
	case wb != nil && hok && (wb.Kind() == types.Float64 && hi.w == 64 || wb.Kind() == types.Float32 && hi.w == 32):
		if ex.intMode {
			ex.unsupported("float bits in int mode")
		}
		t, ok := v.(*Term)
		if !ok {
			ex.unsupported("float from non-term %T", v)
		}
		return ts.FPFromBits(fpSortOf(hi.w), t)
	case isIfaceStruct(want):
		// interface value read as struct{tab uintptr; ptr unsafe.Pointer}
		iv, ok := v.(IfaceV)
		if !ok {
			ex.unsupported("iface struct from %T", v)
		}
		if iv.T == nil {
			return &StructV{Fields: []Value{ex.uintptrConst(0), Pointer{}}}
		}
		id := ex.P.typeID(iv.T)
		tab := ex.uintptrConst(itabBase + uint64(id)*16)
		var ptr Value
		if pv, isPtr := iv.V.(Pointer); isPtr {
			ptr = pv
		} else {
			o := ex.newObjectWith(iv.T, "boxed "+typeString(iv.T), iv.V)
			ptr = Pointer{Obj: o}
		}
		return &StructV{Fields: []Value{tab, ptr}}
	case isIfaceStruct(have):
		if _, isIface := want.Underlying().(*types.Interface); isIface {
			sv := v.(*StructV)
			tab, ok := sv.Fields[0].(*Term)
			if !ok || !tab.Const {
				ex.unsupported("interface from symbolic itab word")
			}
			tv := tab.BigU().Uint64()
			if tv == 0 {
				return IfaceV{}
			}
			dt := ex.P.typeByID(int((tv - itabBase) / 16))
			if dt == nil {
				ex.unsupported("interface from unknown itab word %#x", tv)
			}
			ptr := sv.Fields[1]
			pp, isPtr := ptr.(Pointer)
			if !isPtr {
				pp = ex.toPointer(ptr, nil, nil)
			}
			if _, isPtrType := dt.Underlying().(*types.Pointer); isPtrType {
				return IfaceV{T: dt, V: pp}
			}
			return IfaceV{T: dt, V: ex.load(pp, site)}
		}
	}
	// struct-of-one or same-shape reinterpretations
	if hs, ok := have.Underlying().(*types.Struct); ok && hs.NumFields() == 1 {
		return ex.reinterpret(v.(*StructV).Fields[0], hs.Field(0).Type(), want, p, site)
	}
	if ws, ok := want.Underlying().(*types.Struct); ok && ws.NumFields() == 0 {
		return &StructV{}
	}
	if _, ok := want.Underlying().(*types.Pointer); ok {
		if _, isP := v.(Pointer); isP {
			return v
		}
	}
	if wb != nil && wb.Kind() == types.UnsafePointer {
		if _, isP := v.(Pointer); isP {
			return v
		}
	}
	ex.unsupported("reinterpret %s as %s at %s", typeString(have), typeString(want), site)
	return nil
}

func (ex *Exec) uintptrConst(v uint64) *Term {
	if ex.intMode {
		return ex.ts.IntConst(new(big.Int).SetUint64(v))
	}
	return ex.ts.BVConst(64, v)
}

// ---------- addresses

// byte offset of a path inside a type
func (ex *Exec) pathOffset(t types.Type, path []PathElem) *Term {
	off := ex.goInt(0)
	for _, e := range path {
		switch u := t.Underlying().(type) {
		case *types.Struct:
			fields := make([]*types.Var, u.NumFields())
			for i := range fields {
				fields[i] = u.Field(i)
			}
			offs := sizes.Offsetsof(fields)
			off = ex.offAdd(off, ex.goInt(offs[e.Idx]))
			t = u.Field(e.Idx).Type()
		case *types.Array:
			sz := sizes.Sizeof(u.Elem())
			if e.Sym != nil {
				off = ex.offAdd(off, ex.mulConst(e.Sym, sz))
			} else {
				off = ex.offAdd(off, ex.goInt(int64(e.Idx)*sz))
			}
			t = u.Elem()
		default:
			ex.unsupported("pathOffset through %s", typeString(t))
		}
	}
	return off
}

func (ex *Exec) mulConst(t *Term, k int64) *Term {
	if ex.intMode {
		return ex.ts.IntBin("*", t, ex.ts.IntConst64(k))
	}
	return ex.ts.BVBin("bvmul", t, ex.ts.BVSigned(t.Sort.W, k))
}

func (ex *Exec) ptrToAddr(p Pointer) Value {
	if p.Obj == nil {
		return ex.uintptrConst(0)
	}
	return Addr{Obj: p.Obj, Off: ex.pathOffset(p.Obj.Typ, p.Path)}
}

// toPointer turns an address (or pointer) into a pointer to a value of type pt.Elem().
func (ex *Exec) toPointer(v Value, pt types.Type, site ssa.Instruction) Pointer {
	switch x := v.(type) {
	case Pointer:
		return x
	case Addr:
		var elem types.Type
		if pt != nil {
			if p, ok := pt.Underlying().(*types.Pointer); ok {
				elem = p.Elem()
			}
		}
		off := x.Off
		if !off.Const {
			sz := int64(1)
			if elem != nil {
				sz = sizes.Sizeof(elem)
			}
			total := sizes.Sizeof(x.Obj.Typ)
			limit := int(total/max64(sz, 1)) + 2
			if limit > 4096 {
				limit = 4096
			}
			off = ex.concretize(off, limit, "address offset")
		}
		o := off.BigS().Int64()
		path, ok := ex.pathAtOffset(x.Obj.Typ, o, elem)
		if !ok {
			panic(&GoPanic{Val: ex.runtimeErrorValue("invalid unsafe pointer"), Msg: fmt.Sprintf("invalid unsafe pointer: offset %d in %s is not a %s", o, x.Obj, typeString(elem)), Runtime: true, Fatal: true, Site: ex.posOf(site), Stack: ex.stackStrings()})
		}
		return Pointer{Obj: x.Obj, Path: path}
	case *Term:
		if x.Const && x.BigU().Sign() == 0 {
			return Pointer{}
		}
		ex.unsupported("pointer from integer %s at %s", x, ex.posOf(site))
	case Opaque:
		ex.unsupported("pointer from opaque value (%s)", x.Why)
	}
	ex.unsupported("toPointer from %T", v)
	return Pointer{}
}

func max64(a, b int64) int64 {
	if a > b {
		return a
	}
	return b
}

// pathAtOffset finds the path inside t at byte offset off whose type matches elem
// (nil elem: the outermost location at that offset).
func (ex *Exec) pathAtOffset(t types.Type, off int64, elem types.Type) ([]PathElem, bool) {
	var path []PathElem
	for {
		if off == 0 && (elem == nil || types.Identical(t, elem) || sameShape(t, elem)) {
			return path, true
		}
		switch u := t.Underlying().(type) {
		case *types.Struct:
			n := u.NumFields()
			if n == 0 {
				return nil, false
			}
			fields := make([]*types.Var, n)
			for i := range fields {
				fields[i] = u.Field(i)
			}
			offs := sizes.Offsetsof(fields)
			found := -1
			for i := n - 1; i >= 0; i-- {
				if offs[i] <= off && off < offs[i]+max64(sizes.Sizeof(fields[i].Type()), 1) {
					found = i
					break
				}
			}
			if found < 0 {
				return nil, false
			}
			path = append(path, PathElem{Idx: found})
			off -= offs[found]
			t = fields[found].Type()
		case *types.Array:
			sz := sizes.Sizeof(u.Elem())
			if sz == 0 {
				return nil, false
			}
			idx := off / sz
			if off < 0 {
				return nil, false
			}
			if idx > u.Len() {
				return nil, false
			}
			if idx == u.Len() {
				// one past the end: representable as a pointer, not dereferenceable
				if off%sz != 0 {
					return nil, false
				}
				return append(path, PathElem{Idx: int(idx)}), true
			}
			path = append(path, PathElem{Idx: int(idx)})
			off -= idx * sz
			t = u.Elem()
		default:
			return nil, false
		}
	}
}

func sameShape(a, b types.Type) bool {
	if types.Identical(a.Underlying(), b.Underlying()) {
		return true
	}
	ai, aok := intInfoOf(a)
	bi, bok := intInfoOf(b)
	if aok && bok && ai.w == bi.w {
		return true
	}
	ab, _ := a.Underlying().(*types.Basic)
	bb, _ := b.Underlying().(*types.Basic)
	if ab != nil && bb != nil {
		fa := ab.Kind() == types.Float64 || ab.Kind() == types.Float32
		fb := bb.Kind() == types.Float64 || bb.Kind() == types.Float32
		if (fa && bok || fb && aok) && sizes.Sizeof(a) == sizes.Sizeof(b) {
			return true
		}
	}
	if isIfaceStruct(a) {
		if _, ok := b.Underlying().(*types.Interface); ok {
			return true
		}
	}
	if isIfaceStruct(b) {
		if _, ok := a.Underlying().(*types.Interface); ok {
			return true
		}
	}
	_, ap := a.Underlying().(*types.Pointer)
	_, bp := b.Underlying().(*types.Pointer)
	if ap && bp {
		return true
	}
	if (ap && bb != nil && bb.Kind() == types.UnsafePointer) || (bp && ab != nil && ab.Kind() == types.UnsafePointer) {
		return true
	}
	if bs, ok := b.Underlying().(*types.Struct); ok && bs.NumFields() == 0 {
		return true
	}
	return false
}

// ---------- conversions

func (ex *Exec) convert(v Value, from, to types.Type, site ssa.Instruction) Value {
	ts := ex.ts
	if op, ok := v.(Opaque); ok {
		return op
	}
	fu, tu := from.Underlying(), to.Underlying()
	// type parameters in MultiConvert: core types are identical in instantiated code
	fb, _ := fu.(*types.Basic)
	tb, _ := tu.(*types.Basic)
	fi, fok := intInfoOf(from)
	ti, tok := intInfoOf(to)
	switch {
	case fok && tok:
		if a, isAddr := v.(Addr); isAddr {
			if ti.w == 64 {
				return a
			}
			ex.unsupported("narrowing an address")
		}
		t := v.(*Term)
		if ex.intMode {
			if ti.lo().Cmp(fi.lo()) <= 0 && ti.hi().Cmp(fi.hi()) >= 0 {
				return t
			}
			return ex.wrapMod(t, ti)
		}
		switch {
		case ti.w == fi.w:
			return t
		case ti.w < fi.w:
			return ts.Extract(ti.w-1, 0, t)
		case fi.signed:
			return ts.SignExt(t, ti.w)
		default:
			return ts.ZeroExt(t, ti.w)
		}
	case fok && tb != nil && tb.Info()&types.IsFloat != 0:
		t := v.(*Term)
		s := F64Sort
		if tb.Kind() == types.Float32 {
			s = F32Sort
		}
		if ex.intMode {
			return ts.FPFromInt(s, t)
		}
		return ts.FPFromBV(s, t, fi.signed)
	case fb != nil && fb.Info()&types.IsFloat != 0 && tok:
		if ex.intMode {
			ex.unsupported("float to int in int mode")
		}
		return ts.FPToBV(ti.w, v.(*Term), ti.signed)
	case fb != nil && tb != nil && fb.Info()&types.IsFloat != 0 && tb.Info()&types.IsFloat != 0:
		s := F64Sort
		if tb.Kind() == types.Float32 {
			s = F32Sort
		}
		return ts.FPConv(s, v.(*Term))
	case tb != nil && tb.Kind() == types.UnsafePointer:
		// *T -> unsafe.Pointer, uintptr -> unsafe.Pointer
		return v
	case fb != nil && fb.Kind() == types.UnsafePointer:
		if tok {
			// unsafe.Pointer -> uintptr
			switch x := v.(type) {
			case Pointer:
				return ex.ptrToAddr(x)
			case Addr:
				return x
			case *Term:
				return x
			}
		}
		if _, isPtr := tu.(*types.Pointer); isPtr {
			if a, isAddr := v.(Addr); isAddr {
				return ex.toPointer(a, to, site)
			}
			if t, isT := v.(*Term); isT {
				return ex.toPointer(t, to, site)
			}
			return v
		}
	case tb != nil && tb.Info()&types.IsString != 0:
		switch x := v.(type) {
		case StringV:
			return x
		case SliceV:
			// []byte or []rune to string
			et := fu.(*types.Slice).Elem().Underlying().(*types.Basic)
			elems := ex.sliceElems(x)
			if et.Kind() == types.Uint8 {
				bs := make([]*Term, len(elems))
				for i, e := range elems {
					bs[i] = e.(*Term)
				}
				return StringV{B: bs}
			}
			var out []*Term
			for _, e := range elems {
				out = append(out, ex.encodeRune(e.(*Term), site)...)
			}
			return StringV{B: out}
		case *Term:
			// integer (rune) to string
			r := x
			if fok && !ex.intMode && fi.w != 32 {
				if fi.w < 32 {
					if fi.signed {
						r = ts.SignExt(x, 32)
					} else {
						r = ts.ZeroExt(x, 32)
					}
				} else {
					// out of range values become U+FFFD: handled in encodeRune via the int32 view
					inRange := ts.BVCmp("bvule", x, ts.BVConst(fi.w, 0x10FFFF))
					r = ts.Ite(inRange, ts.Extract(31, 0, x), ts.BVConst(32, 0xFFFD))
				}
			}
			return StringV{B: ex.encodeRune(r, site)}
		}
	case fb != nil && fb.Info()&types.IsString != 0:
		if sl, ok := tu.(*types.Slice); ok {
			s := v.(StringV)
			et := sl.Elem().Underlying().(*types.Basic)
			if et.Kind() == types.Uint8 {
				elems := make([]Value, len(s.B))
				for i, b := range s.B {
					elems[i] = b
				}
				return ex.newSlice(sl.Elem(), elems, len(elems), ex.posOf(site))
			}
			// []rune
			runes := ex.decodeRunes(s, site)
			elems := make([]Value, len(runes))
			for i, r := range runes {
				elems[i] = r
			}
			return ex.newSlice(sl.Elem(), elems, len(elems), ex.posOf(site))
		}
	}
	if _, ok := tu.(*types.Slice); ok {
		if _, ok2 := fu.(*types.Slice); ok2 {
			return v
		}
	}
	if _, ok := tu.(*types.Pointer); ok {
		if _, ok2 := fu.(*types.Pointer); ok2 {
			return v
		}
	}
	if types.Identical(fu, tu) {
		return v
	}
	ex.unsupported("convert %s -> %s at %s", typeString(from), typeString(to), ex.posOf(site))
	return nil
}

func (ex *Exec) newSlice(elem types.Type, elems []Value, capacity int, site string) SliceV {
	if capacity < len(elems) {
		capacity = len(elems)
	}
	all := make([]Value, capacity)
	copy(all, elems)
	if capacity > len(elems) {
		z := ex.zero(elem)
		for i := len(elems); i < capacity; i++ {
			all[i] = z
		}
	}
	at := types.NewArray(elem, int64(capacity))
	o := ex.newObjectWith(at, site, &ArrayV{Elems: all})
	return SliceV{Arr: Pointer{Obj: o}, Off: 0, Len: len(elems), Cap: capacity}
}

func (ex *Exec) sliceElems(s SliceV) []Value {
	if s.Arr.Obj == nil || s.Len == 0 {
		return nil
	}
	av, ok := ex.load(s.Arr, "slice").(*ArrayV)
	if !ok {
		ex.unsupported("slice backing is not an array")
	}
	return av.Elems[s.Off : s.Off+s.Len]
}

// utf8 through the real unicode/utf8 code
func (ex *Exec) utf8Func(name string) *ssa.Function {
	pkg := ex.P.Prog.ImportedPackage("unicode/utf8")
	if pkg == nil {
		ex.unsupported("unicode/utf8 not loaded")
	}
	fn := pkg.Func(name)
	if fn == nil {
		ex.unsupported("utf8.%s missing", name)
	}
	return fn
}

func (ex *Exec) encodeRune(r *Term, site ssa.Instruction) []*Term {
	// utf8.AppendRune(nil, r)
	fn := ex.utf8Func("AppendRune")
	out := ex.callFunction(ex.cur, fn, []Value{SliceV{}, r}, nil, site)
	sl := out.(SliceV)
	elems := ex.sliceElems(sl)
	bs := make([]*Term, len(elems))
	for i, e := range elems {
		bs[i] = e.(*Term)
	}
	return bs
}

func (ex *Exec) decodeRuneAt(s StringV, pos int, site ssa.Instruction) (*Term, int) {
	fn := ex.utf8Func("DecodeRuneInString")
	out := ex.callFunction(ex.cur, fn, []Value{StringV{B: s.B[pos:]}, nil}[:1], nil, site)
	tv := out.(TupleV)
	r := tv[0].(*Term)
	szT := tv[1].(*Term)
	sz := ex.concreteInt(szT, 6, "utf8 rune size")
	return r, sz
}

func (ex *Exec) decodeRunes(s StringV, site ssa.Instruction) []*Term {
	var out []*Term
	for pos := 0; pos < len(s.B); {
		r, sz := ex.decodeRuneAt(s, pos, site)
		out = append(out, r)
		if sz <= 0 {
			ex.unsupported("rune size 0")
		}
		pos += sz
	}
	return out
}

// ---------- indexing and slicing

func (ex *Exec) idxTermBounds(idx *Term, n int, site ssa.Instruction) {
	ts := ex.ts
	var ok *Term
	if idx.Sort.K == SInt {
		ok = ts.And(ts.IntCmp(">=", idx, ts.IntConst64(0)), ts.IntCmp("<", idx, ts.IntConst64(int64(n))))
	} else {
		// unsigned compare covers negative values too
		ok = ts.BVCmp("bvult", idx, ts.BVConst(idx.Sort.W, uint64(n)))
	}
	if !ok.IsTrue() {
		ex.check(ok, fmt.Sprintf("index out of range [..] with length %d", n), ex.posOf(site))
	}
}

func (ex *Exec) normIndex(v Value, t types.Type) *Term {
	idx := v.(*Term)
	if idx.Sort.K == SBV && idx.Sort.W < 64 {
		ii, _ := intInfoOf(t)
		if ii.signed {
			idx = ex.ts.SignExt(idx, 64)
		} else {
			idx = ex.ts.ZeroExt(idx, 64)
		}
	}
	return idx
}

func (ex *Exec) index(fr *Frame, x *ssa.Index) Value {
	cv := ex.get(fr, x.X)
	idx := ex.normIndex(ex.get(fr, x.Index), x.Index.Type())
	switch c := cv.(type) {
	case StringV:
		ex.idxTermBounds(idx, len(c.B), x)
		if idx.Const {
			return c.B[int(idx.BigS().Int64())]
		}
		var acc *Term
		for k := len(c.B) - 1; k >= 0; k-- {
			if acc == nil {
				acc = c.B[k]
				continue
			}
			acc = ex.ts.Ite(ex.ts.Eq(idx, ex.idxConst(idx, k)), c.B[k], acc)
		}
		return acc
	case *ArrayV:
		ex.idxTermBounds(idx, len(c.Elems), x)
		if idx.Const {
			return c.Elems[int(idx.BigS().Int64())]
		}
		return ex.loadPath(c, []PathElem{{Sym: idx}})
	case Opaque:
		return c
	}
	ex.unsupported("index of %T", cv)
	return nil
}

func (ex *Exec) indexAddr(fr *Frame, x *ssa.IndexAddr) Value {
	cv := ex.get(fr, x.X)
	idx := ex.normIndex(ex.get(fr, x.Index), x.Index.Type())
	switch c := cv.(type) {
	case SliceV:
		ex.idxTermBounds(idx, c.Len, x)
		if !idx.Const && ex.splitIndex && c.Len <= 16 && ex.specDepth == 0 {
			// case-split small element indices instead of building ite chains over the elements
			idx = ex.concretize(idx, c.Len+1, "element index at "+ex.posOf(x))
		}
		if idx.Const {
			return Pointer{Obj: c.Arr.Obj, Path: appendPath(c.Arr.Path, PathElem{Idx: c.Off + int(idx.BigS().Int64())})}
		}
		sym := idx
		if c.Off != 0 {
			sym = ex.offAdd(idx, ex.idxConst(idx, c.Off))
		}
		return Pointer{Obj: c.Arr.Obj, Path: appendPath(c.Arr.Path, PathElem{Sym: sym})}
	case Pointer:
		// pointer to array
		if c.Obj == nil {
			ex.goPanicRuntime("invalid memory address or nil pointer dereference", ex.posOf(x))
		}
		at := x.X.Type().Underlying().(*types.Pointer).Elem().Underlying().(*types.Array)
		ex.idxTermBounds(idx, int(at.Len()), x)
		if idx.Const {
			return Pointer{Obj: c.Obj, Path: appendPath(c.Path, PathElem{Idx: int(idx.BigS().Int64())})}
		}
		return Pointer{Obj: c.Obj, Path: appendPath(c.Path, PathElem{Sym: idx})}
	case Opaque:
		ex.unsupported("index address into opaque value (%s)", c.Why)
	}
	ex.unsupported("indexaddr of %T", cv)
	return nil
}

func (ex *Exec) optIndex(fr *Frame, v ssa.Value, def int, limit int, what string) int {
	if v == nil {
		return def
	}
	t := ex.normIndex(ex.get(fr, v), v.Type())
	if t.Const {
		bs := t.BigS()
		if !bs.IsInt64() {
			return -1
		}
		return int(bs.Int64())
	}
	return ex.concreteInt(t, limit, what)
}

func (ex *Exec) slice(fr *Frame, x *ssa.Slice) Value {
	cv := ex.get(fr, x.X)
	site := ex.posOf(x)
	switch c := cv.(type) {
	case StringV:
		lo := ex.optIndex(fr, x.Low, 0, len(c.B)+3, "slice low")
		hi := ex.optIndex(fr, x.High, len(c.B), len(c.B)+3, "slice high")
		if lo < 0 || hi < lo || hi > len(c.B) {
			ex.goPanicRuntime(fmt.Sprintf("slice bounds out of range [%d:%d] with length %d", lo, hi, len(c.B)), site)
		}
		return StringV{B: c.B[lo:hi]}
	case SliceV:
		lo := ex.optIndex(fr, x.Low, 0, c.Cap+3, "slice low")
		hi := ex.optIndex(fr, x.High, c.Len, c.Cap+3, "slice high")
		mx := ex.optIndex(fr, x.Max, c.Cap, c.Cap+3, "slice max")
		if lo < 0 || hi < lo || mx < hi || mx > c.Cap {
			ex.goPanicRuntime(fmt.Sprintf("slice bounds out of range [%d:%d:%d] with capacity %d", lo, hi, mx, c.Cap), site)
		}
		if c.Arr.Obj == nil {
			return SliceV{}
		}
		return SliceV{Arr: c.Arr, Off: c.Off + lo, Len: hi - lo, Cap: mx - lo}
	case Pointer:
		if c.Obj == nil {
			ex.goPanicRuntime("invalid memory address or nil pointer dereference", site)
		}
		at := x.X.Type().Underlying().(*types.Pointer).Elem().Underlying().(*types.Array)
		n := int(at.Len())
		lo := ex.optIndex(fr, x.Low, 0, n+3, "slice low")
		hi := ex.optIndex(fr, x.High, n, n+3, "slice high")
		mx := ex.optIndex(fr, x.Max, n, n+3, "slice max")
		if lo < 0 || hi < lo || mx < hi || mx > n {
			ex.goPanicRuntime(fmt.Sprintf("slice bounds out of range [%d:%d:%d] with capacity %d", lo, hi, mx, n), site)
		}
		return SliceV{Arr: c, Off: lo, Len: hi - lo, Cap: mx - lo}
	}
	ex.unsupported("slice of %T", cv)
	return nil
}

func (ex *Exec) makeSlice(fr *Frame, x *ssa.MakeSlice) Value {
	lt := ex.normIndex(ex.get(fr, x.Len), x.Len.Type())
	ct := ex.normIndex(ex.get(fr, x.Cap), x.Cap.Type())
	site := ex.posOf(x)
	ts := ex.ts
	if !lt.Const {
		var ok *Term
		if ex.intMode {
			ok = ts.And(ts.IntCmp(">=", lt, ts.IntConst64(0)), ts.IntCmp("<=", lt, ts.IntConst64(1<<32)))
		} else {
			ok = ts.BVCmp("bvule", lt, ts.BVConst(64, 1<<32))
		}
		ex.check(ok, "makeslice: len out of range", site)
	}
	if !ct.Const {
		var ok *Term
		if ex.intMode {
			ok = ts.And(ts.IntCmp(">=", ct, lt), ts.IntCmp("<=", ct, ts.IntConst64(1<<32)))
		} else {
			ok = ts.And(ts.BVCmp("bvule", ct, ts.BVConst(64, 1<<32)), ts.BVCmp("bvuge", ct, lt))
		}
		ex.check(ok, "makeslice: cap out of range", site)
	}
	n := ex.concreteIntOrAbort(lt, 65, "makeslice len")
	c := ex.concreteIntOrAbort(ct, 65, "makeslice cap")
	if n < 0 || n > 1<<32 {
		ex.goPanicRuntime("makeslice: len out of range", site)
	}
	if c < n || c > 1<<32 {
		ex.goPanicRuntime("makeslice: cap out of range", site)
	}
	if c > 1<<20 {
		panic(&pathAbort{Kind: "budget", Msg: fmt.Sprintf("makeslice of %d elements", c)})
	}
	elem := x.Type().Underlying().(*types.Slice).Elem()
	z := ex.zero(elem)
	all := make([]Value, c)
	for i := range all {
		all[i] = z
	}
	o := ex.newObjectWith(types.NewArray(elem, int64(c)), site, &ArrayV{Elems: all})
	return SliceV{Arr: Pointer{Obj: o}, Len: n, Cap: c}
}

func (ex *Exec) concreteIntOrAbort(t *Term, limit int, what string) int {
	if t.Const {
		bs := t.BigS()
		if !bs.IsInt64() {
			return -1
		}
		return int(bs.Int64())
	}
	return ex.concreteInt(t, limit, what)
}

// ---------- maps

func (ex *Exec) mapData(m MapV) *MapData {
	if m.Obj == nil {
		return &MapData{}
	}
	v, _ := ex.memGet(m.Obj)
	md, ok := v.(*MapData)
	if !ok {
		ex.unsupported("map object without data")
	}
	return md
}

func (ex *Exec) lookup(fr *Frame, x *ssa.Lookup) Value {
	cv := ex.get(fr, x.X)
	kv := ex.get(fr, x.Index)
	if s, ok := cv.(StringV); ok {
		idx := ex.normIndex(kv, x.Index.Type())
		ex.idxTermBounds(idx, len(s.B), x)
		if idx.Const {
			return s.B[int(idx.BigS().Int64())]
		}
		var acc *Term
		for k := len(s.B) - 1; k >= 0; k-- {
			if acc == nil {
				acc = s.B[k]
			} else {
				acc = ex.ts.Ite(ex.ts.Eq(idx, ex.idxConst(idx, k)), s.B[k], acc)
			}
		}
		return acc
	}
	if op, ok := cv.(Opaque); ok {
		return op
	}
	m, ok := cv.(MapV)
	if !ok {
		ex.unsupported("lookup in %T", cv)
	}
	mt := x.X.Type().Underlying().(*types.Map)
	if ex.guards != nil {
		ex.raceCheck(m.Obj, false, ex.posOf(x))
	}
	md := ex.mapData(m)
	var val Value = ex.zero(mt.Elem())
	found := ex.ts.False()
	// later entries never duplicate keys (update replaces), iterate in reverse to build ite chain
	for i := len(md.Entries) - 1; i >= 0; i-- {
		e := md.Entries[i]
		eq := ex.valueEq(kv, e.K, mt.Key(), x)
		if eq.IsFalse() {
			continue
		}
		if eq.IsTrue() {
			val = e.V
			found = ex.ts.True()
			continue
		}
		mv, ok := ex.merge(eq, e.V, val)
		if !ok {
			// fork on the key equality instead
			if ex.branch(eq, "map key equality") {
				val = e.V
				found = ex.ts.True()
			}
			continue
		}
		val = mv
		found = ex.ts.Or(eq, found)
	}
	if x.CommaOk {
		return TupleV{val, found}
	}
	return val
}

func (ex *Exec) mapUpdate(mv, k, v Value, site ssa.Instruction) {
	m, ok := mv.(MapV)
	if !ok {
		ex.unsupported("map update on %T", mv)
	}
	if m.Obj == nil {
		panic(&GoPanic{Val: ex.runtimeErrorValue("assignment to entry in nil map"), Msg: "assignment to entry in nil map", Runtime: true, Site: ex.posOf(site), Stack: ex.stackStrings()})
	}
	mt := m.Obj.Typ.Underlying().(*types.Map)
	if ex.guards != nil {
		ex.raceCheck(m.Obj, true, ex.posOf(site))
	}
	md := ex.mapData(m)
	entries := make([]MapEntry, 0, len(md.Entries)+1)
	replaced := false
	for _, e := range md.Entries {
		if !replaced {
			eq := ex.valueEq(k, e.K, mt.Key(), site)
			if !eq.IsFalse() {
				if eq.IsTrue() || ex.branch(eq, "map update key equality") {
					entries = append(entries, MapEntry{K: e.K, V: v})
					replaced = true
					continue
				}
			}
		}
		entries = append(entries, e)
	}
	if !replaced {
		entries = append(entries, MapEntry{K: k, V: v})
	}
	ex.memSet(m.Obj, &MapData{Entries: entries})
}

func (ex *Exec) mapDelete(mv, k Value, site ssa.Instruction) {
	m := mv.(MapV)
	if m.Obj == nil {
		return
	}
	mt := m.Obj.Typ.Underlying().(*types.Map)
	md := ex.mapData(m)
	var entries []MapEntry
	for _, e := range md.Entries {
		eq := ex.valueEq(k, e.K, mt.Key(), site)
		if eq.IsTrue() || (!eq.IsFalse() && ex.branch(eq, "map delete key equality")) {
			continue
		}
		entries = append(entries, e)
	}
	ex.memSet(m.Obj, &MapData{Entries: entries})
}

// ---------- type assertions

func (ex *Exec) implements(dyn types.Type, iface *types.Interface) bool {
	return types.Implements(dyn, iface)
}

func (ex *Exec) typeAssert(fr *Frame, x *ssa.TypeAssert) Value {
	v := ex.get(fr, x.X)
	if op, ok := v.(Opaque); ok {
		ex.unsupported("type assertion on opaque value (%s)", op.Why)
	}
	iv, ok := v.(IfaceV)
	if !ok {
		ex.unsupported("type assert on %T", v)
	}
	var okb bool
	var res Value
	if it, isIface := x.AssertedType.Underlying().(*types.Interface); isIface {
		okb = iv.T != nil && ex.implements(iv.T, it)
		if okb {
			res = iv
		} else {
			res = IfaceV{}
		}
	} else {
		okb = iv.T != nil && types.Identical(iv.T, x.AssertedType)
		if okb {
			res = iv.V
		} else {
			res = ex.zero(x.AssertedType)
		}
	}
	if x.CommaOk {
		return TupleV{res, ex.ts.Bool(okb)}
	}
	if !okb {
		msg := fmt.Sprintf("interface conversion: interface is %s, not %s", typeString(iv.T), typeString(x.AssertedType))
		panic(&GoPanic{Val: ex.runtimeErrorValue(msg), Msg: msg, Runtime: true, Site: ex.posOf(x), Stack: ex.stackStrings()})
	}
	return res
}

// ---------- range

type rangeIter struct {
	str   *StringV
	m     *MapData
	mtype *types.Map
	st    *Object // holds iterState (in path memory so that speculation can roll it back)
}

type iterState struct{ pos int }

func (ex *Exec) rangeInit(fr *Frame, x *ssa.Range) Value {
	v := ex.get(fr, x.X)
	st := ex.newObjectWith(types.Typ[types.Int], "range-iter", iterState{})
	switch c := v.(type) {
	case StringV:
		return &rangeIter{str: &c, st: st}
	case MapV:
		md := ex.mapData(c)
		return &rangeIter{m: md, mtype: x.X.Type().Underlying().(*types.Map), st: st}
	}
	ex.unsupported("range over %T", v)
	return nil
}

func (ex *Exec) rangeNext(fr *Frame, x *ssa.Next) Value {
	it, ok := ex.get(fr, x.Iter).(*rangeIter)
	if !ok {
		ex.unsupported("next on non-iterator")
	}
	ts := ex.ts
	sv, _ := ex.memGet(it.st)
	state := sv.(iterState)
	if x.IsString {
		if state.pos >= len(it.str.B) {
			return TupleV{ts.False(), ex.goInt(0), ex.intConstOf(types.Typ[types.Int32], 0)}
		}
		pos := state.pos
		r, sz := ex.decodeRuneAt(*it.str, pos, x)
		ex.memSet(it.st, iterState{pos: pos + sz})
		return TupleV{ts.True(), ex.goInt(int64(pos)), r}
	}
	if state.pos >= len(it.m.Entries) {
		return TupleV{ts.False(), ex.zero(it.mtype.Key()), ex.zero(it.mtype.Elem())}
	}
	e := it.m.Entries[state.pos]
	ex.memSet(it.st, iterState{pos: state.pos + 1})
	return TupleV{ts.True(), e.K, e.V}
}
