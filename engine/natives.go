package main

// Locating natively registered Elk methods: vm.Def(container, "name", fn, opts...) call
// sites inside an init function are resolved from the current SSA.

import (
	"os"
	"path/filepath"
	"fmt"
	"go/constant"
	"go/types"
	"regexp"
	"strings"

	"golang.org/x/tools/go/ssa"
)

type defSite struct {
	InitFn string
	Name   string
	Fn     *ssa.Function
	Bound  bool // closure captures variables of the init function
	Params int  // from DefWithParameters(n), -1 if absent
	Pos    string
}

// defSites lists the Def call sites of an init function.
func (p *Program) defSites(initFn *ssa.Function) []defSite {
	var out []defSite
	for _, b := range initFn.Blocks {
		for _, ins := range b.Instrs {
			call, ok := ins.(*ssa.Call)
			if !ok {
				continue
			}
			callee := call.Call.StaticCallee()
			if callee == nil || callee.Name() != "Def" || len(call.Call.Args) < 3 {
				continue
			}
			c, ok := call.Call.Args[1].(*ssa.Const)
			if !ok || c.Value == nil || c.Value.Kind() != constant.String {
				continue
			}
			ds := defSite{InitFn: initFn.Name(), Name: constant.StringVal(c.Value), Params: -1}
			v := call.Call.Args[2]
			for {
				if ct, ok := v.(*ssa.ChangeType); ok {
					v = ct.X
					continue
				}
				break
			}
			switch f := v.(type) {
			case *ssa.Function:
				ds.Fn = f
			case *ssa.MakeClosure:
				ds.Fn = f.Fn.(*ssa.Function)
				ds.Bound = len(f.Bindings) > 0
			}
			// options: a variadic slice built from calls like DefWithParameters(2)
			ds.Params = defParamCount(call)
			if pos := call.Pos(); pos.IsValid() {
				pp := p.Fset.Position(pos)
				ds.Pos = fmt.Sprintf("%s:%d", trimRepo(pp.Filename), pp.Line)
			}
			out = append(out, ds)
		}
	}
	return out
}

func defParamCount(call *ssa.Call) int {
	// look back in the block for calls to DefWithParameters(n) stored into the varargs slice
	n := -1
	for _, ins := range call.Block().Instrs {
		if ins == ssa.Instruction(call) {
			break
		}
		c, ok := ins.(*ssa.Call)
		if !ok {
			continue
		}
		if callee := c.Call.StaticCallee(); callee != nil && callee.Name() == "DefWithParameters" && len(c.Call.Args) == 1 {
			if k, ok := c.Call.Args[0].(*ssa.Const); ok && k.Value != nil {
				if v, ok := constant.Int64Val(constant.ToInt(k.Value)); ok {
					n = int(v)
				}
			}
		} else if callee != nil && callee.Name() == "Def" {
			n = -1
		}
	}
	return n
}

func init() {
	// vxNativeFn(initFn, name string) vm.NativeFunction
	// vxNativeOf(initFn string, class *value.Class, name string): same, the class is only used natively
	vxAPI["vxNativeOf"] = func(ex *Exec, fr *Frame, fn *ssa.Function, args []Value, site ssa.Instruction) Value {
		return vxAPI["vxNativeFn"](ex, fr, fn, []Value{args[0], args[2]}, site)
	}
	vxAPI["vxNativeFn"] = func(ex *Exec, fr *Frame, fn *ssa.Function, args []Value, site ssa.Instruction) Value {
		initName, name := argString(ex, args[0]), argString(ex, args[1])
		var initFn *ssa.Function
		if fr != nil && fr.fn != nil && fr.fn.Pkg != nil {
			// the harness's own package first (several packages have an initMutex, ...)
			initFn = fr.fn.Pkg.Func(initName)
		}
		for _, pkg := range ex.P.Prog.AllPackages() {
			if initFn != nil {
				break
			}
			if !strings.Contains(pkg.Pkg.Path(), "elk-language/elk") {
				continue
			}
			if f := pkg.Func(initName); f != nil {
				initFn = f
				break
			}
		}
		if initFn == nil {
			ex.unsupported("vxNativeFn: no function %s", initName)
		}
		for _, ds := range ex.P.defSites(initFn) {
			if ds.Name == name {
				if ds.Fn == nil || ds.Bound {
					ex.unsupported("vxNativeFn: %s/%s is not a plain function literal", initName, name)
				}
				return &FuncV{Fn: ds.Fn}
			}
		}
		ex.unsupported("vxNativeFn: %s has no Def(%q)", initName, name)
		return nil
	}

	// doublestar: the outcome of a glob match is an uninterpreted boolean of (pattern, name)
	registerIntrinsic("github.com/bmatcuk/doublestar/v4.MatchUnvalidated", func(ex *Exec, fr *Frame, fn *ssa.Function, a []Value, site ssa.Instruction) Value {
		p, ok1 := concreteString(a[0].(StringV))
		n, ok2 := concreteString(a[1].(StringV))
		if !ok1 || !ok2 {
			ex.unsupported("doublestar with symbolic strings")
		}
		if strings.ContainsAny(p, "*?[{\\") {
			ex.unsupported("doublestar pattern with metacharacters")
		}
		// a pattern without metacharacters matches exactly itself
		return ex.ts.Bool(p == n)
	})
	// regex: literal patterns only (substring semantics), anything else is outside the model
	registerIntrinsic("github.com/elk-language/elk/value.CompileRegex", func(ex *Exec, fr *Frame, fn *ssa.Function, a []Value, site ssa.Instruction) Value {
		src, ok := concreteString(a[0].(StringV))
		if !ok || !literalRe.MatchString(src) {
			ex.unsupported("CompileRegex of a non-literal pattern")
		}
		rt := fn.Signature.Results().At(0).Type().(*types.Pointer).Elem()
		o := ex.newObject(rt, "regex "+src)
		o.Extern = true
		// remember the source in the Source field (index 1)
		st, _ := ex.memGet(o)
		fs := append([]Value(nil), st.(*StructV).Fields...)
		fs[1] = ex.strConst(src)
		ex.memSet(o, &StructV{Fields: fs})
		return TupleV{Pointer{Obj: o}, IfaceV{}}
	})
	registerIntrinsic("(*github.com/elk-language/elk/value.Regex).MatchesString", func(ex *Exec, fr *Frame, fn *ssa.Function, a []Value, site ssa.Instruction) Value {
		p := a[0].(Pointer)
		st := ex.load(p, "regex").(*StructV)
		src, ok := concreteString(st.Fields[1].(StringV))
		s, ok2 := concreteString(a[1].(StringV))
		if !ok || !ok2 || !literalRe.MatchString(src) {
			ex.unsupported("Regex.MatchesString outside the literal-pattern model")
		}
		return ex.ts.Bool(strings.Contains(s, src))
	})
}

var literalRe = regexp.MustCompile(`^[A-Za-z0-9_ ]*$`)


func structFieldIndex(t types.Type, name string) int {
	st, ok := t.Underlying().(*types.Struct)
	if !ok {
		return -1
	}
	for i := 0; i < st.NumFields(); i++ {
		if st.Field(i).Name() == name {
			return i
		}
	}
	return -1
}

func init() {
	// Elk error objects are class-tagged objects: the class is what obligations compare;
	// instance-variable layout (class.IvarIndices) belongs to the class singletons that
	// package init builds and is not modelled.
	registerIntrinsic("github.com/elk-language/elk/value.NewError", func(ex *Exec, fr *Frame, fn *ssa.Function, a []Value, site ssa.Instruction) Value {
		rt := fn.Signature.Results().At(0).Type().(*types.Pointer).Elem()
		o := ex.newObject(rt, "elk-error")
		st, _ := ex.memGet(o)
		fs := append([]Value(nil), st.(*StructV).Fields...)
		ci := structFieldIndex(rt, "class")
		ii := structFieldIndex(rt, "instanceVariables")
		if ci < 0 || ii < 0 {
			ex.unsupported("value.Object layout changed")
		}
		fs[ci] = a[0]
		ivt := rt.Underlying().(*types.Struct).Field(ii).Type()
		elem := ivt.Underlying().(*types.Slice).Elem()
		// message: Ref(String(msg)) built by the real constructor when cheap
		var msg Value = Opaque{"error message"}
		func() {
			defer func() {
				if r := recover(); r != nil {
					if _, ok := r.(*pathAbort); !ok {
						panic(r)
					}
				}
			}()
			pkg := fn.Pkg
			if refFn := pkg.Func("Ref"); refFn != nil {
				strT := pkg.Type("String")
				if strT != nil {
					msg = ex.callFunction(fr, refFn, []Value{IfaceV{T: strT.Type(), V: a[1]}}, nil, site)
				}
			}
		}()
		fs[ii] = ex.newSlice(elem, []Value{msg}, 1, "error ivars")
		ex.memSet(o, &StructV{Fields: fs})
		return Pointer{Obj: o}
	})
	registerIntrinsic("(*github.com/elk-language/elk/value.Class).PrintableName", func(ex *Exec, fr *Frame, fn *ssa.Function, a []Value, site ssa.Instruction) Value {
		return ex.strConst("<class>")
	})
	registerIntrinsic("(*github.com/elk-language/elk/value.Object).Message", func(ex *Exec, fr *Frame, fn *ssa.Function, a []Value, site ssa.Instruction) Value {
		p := a[0].(Pointer)
		st := ex.load(p, "Message").(*StructV)
		ii := structFieldIndex(p.Obj.Typ, "instanceVariables")
		sl, ok := st.Fields[ii].(SliceV)
		if !ok || sl.Len == 0 {
			ex.unsupported("Object.Message on an object without modelled ivars")
		}
		return ex.sliceElems(sl)[0]
	})
}

func init() {
	// vxTerminates(k): a symbolic loop condition decided more than k times in one
	// activation is a termination violation (replayed natively under a short timeout)
	vxAPI["vxTerminates"] = func(ex *Exec, fr *Frame, fn *ssa.Function, args []Value, site ssa.Instruction) Value {
		ex.unwind = argInt(ex, args[0])
		ex.unwindIsViolation = true
		return nil
	}
}

func init() {
	// vxBigWidth(w): width of bv-mode big integers for this harness (before any vxBig)
	vxAPI["vxBigWidth"] = func(ex *Exec, fr *Frame, fn *ssa.Function, args []Value, site ssa.Instruction) Value {
		ex.bigW = argInt(ex, args[0])
		return nil
	}
}

func init() {
	// vxSplitIndex(): symbolic element indices into slices of <= 16 elements are case-split
	vxAPI["vxSplitIndex"] = func(ex *Exec, fr *Frame, fn *ssa.Function, args []Value, site ssa.Instruction) Value {
		ex.splitIndex = true
		return nil
	}
}

func init() {
	findInit := func(ex *Exec, fr *Frame, initName string) *ssa.Function {
		var initFn *ssa.Function
		if fr != nil && fr.fn != nil && fr.fn.Pkg != nil {
			initFn = fr.fn.Pkg.Func(initName)
		}
		if initFn == nil {
			ex.unsupported("native sweep: no function %s in the harness package", initName)
		}
		return initFn
	}
	// the Def(...) registrations of an init function that are plain function literals, in source order
	sweepSites := func(ex *Exec, fr *Frame, initName string) []defSite {
		var out []defSite
		all := ex.P.defSites(findInit(ex, fr, initName))
		last := map[string]int{}
		for i, ds := range all {
			last[ds.Name] = i
		}
		for i, ds := range all {
			// a later Def of the same name replaces an earlier one at run time
			if ds.Fn != nil && !ds.Bound && last[ds.Name] == i {
				out = append(out, ds)
			}
		}
		return out
	}
	vxAPI["vxNativeCount"] = func(ex *Exec, fr *Frame, fn *ssa.Function, args []Value, site ssa.Instruction) Value {
		return ex.goInt(int64(len(sweepSites(ex, fr, argString(ex, args[0])))))
	}
	vxAPI["vxNativeNameAt"] = func(ex *Exec, fr *Frame, fn *ssa.Function, args []Value, site ssa.Instruction) Value {
		initName, i := argString(ex, args[0]), argInt(ex, args[1])
		sites := sweepSites(ex, fr, initName)
		if i < 0 || i >= len(sites) {
			ex.unsupported("native sweep: index %d out of %d", i, len(sites))
		}
		if ex.notes == nil {
			ex.notes = map[string]string{}
		}
		ex.notes[fmt.Sprintf("note:native:%s:%d", initName, i)] = sites[i].Name
		return ex.strConst(sites[i].Name)
	}
	// vxNativeAtIndex(initFn string, class *value.Class, i int) NativeFunction
	vxAPI["vxNativeAtIndex"] = func(ex *Exec, fr *Frame, fn *ssa.Function, args []Value, site ssa.Instruction) Value {
		initName, i := argString(ex, args[0]), argInt(ex, args[2])
		sites := sweepSites(ex, fr, initName)
		if i < 0 || i >= len(sites) {
			ex.unsupported("native sweep: index %d out of %d", i, len(sites))
		}
		return &FuncV{Fn: sites[i].Fn}
	}
	// vxReadFile(rel string) string: a file of the repository under test, read at run time
	vxAPI["vxReadFile"] = func(ex *Exec, fr *Frame, fn *ssa.Function, args []Value, site ssa.Instruction) Value {
		rel := argString(ex, args[0])
		data, err := os.ReadFile(filepath.Join(repoDir, rel))
		if err != nil {
			ex.unsupported("vxReadFile: %v", err)
		}
		return ex.strConst(string(data))
	}
}

// headerSignature: the same line-based reader as the harness's native vxHeaderSig (kept in step
// with it): the k-th `def name` line of a header file -> "p1,p2|ret", "" when there is none.
func headerSignature(text, name string, overload int) string {
	k := 0
	for _, line := range strings.Split(text, "\n") {
		i := strings.Index(line, "def "+name)
		if i < 0 {
			continue
		}
		rest := line[i+4+len(name):]
		if len(rest) == 0 || (rest[0] != '(' && rest[0] != ':' && rest[0] != ';') {
			continue
		}
		if i > 0 && line[i-1] != ' ' && line[i-1] != '\t' {
			continue
		}
		var params []string
		ret := ""
		if rest[0] == '(' {
			j := strings.Index(rest, ")")
			if j < 0 {
				continue
			}
			for _, p := range strings.Split(rest[1:j], ",") {
				c := strings.Index(p, ":")
				if c < 0 {
					params = append(params, "?")
					continue
				}
				t := strings.TrimSpace(p[c+1:])
				if e := strings.Index(t, "="); e >= 0 {
					t = strings.TrimSpace(t[:e])
				}
				params = append(params, t)
			}
			rest = rest[j+1:]
		}
		if len(rest) > 0 && rest[0] == ':' {
			r := rest[1:]
			if e := strings.Index(r, ";"); e >= 0 {
				r = r[:e]
			}
			if e := strings.Index(r, "!"); e >= 0 {
				r = r[:e]
			}
			ret = strings.TrimSpace(r)
		}
		if k == overload {
			return "ok\x1f" + strings.Join(params, ",") + "\x1f" + ret
		}
		k++
	}
	return ""
}

func init() {
	vxAPI["vxHeaderSig"] = func(ex *Exec, fr *Frame, fn *ssa.Function, args []Value, site ssa.Instruction) Value {
		rel, name, overload := argString(ex, args[0]), argString(ex, args[1]), argInt(ex, args[2])
		data, err := os.ReadFile(filepath.Join(repoDir, rel))
		if err != nil {
			ex.unsupported("vxHeaderSig: %v", err)
		}
		return ex.strConst(headerSignature(string(data), name, overload))
	}
}
