package main

// Models of library code that is not elk's (each one is part of the claim).

import (
	"go/token"
	"go/types"
	"math"
	"math/big"
	"strings"

	"golang.org/x/tools/go/ssa"
)

const tokenLSS = token.LSS

// concrete formatting of %s / %d / %v with concrete string and integer arguments
func fmtConcrete(ex *Exec, args []Value, fmtIdx int) (StringV, bool) {
	if fmtIdx < 0 || fmtIdx+1 >= len(args) {
		return StringV{}, false
	}
	fs, ok := args[fmtIdx].(StringV)
	if !ok {
		return StringV{}, false
	}
	format, ok := concreteString(fs)
	if !ok {
		return StringV{}, false
	}
	va, ok := args[fmtIdx+1].(SliceV)
	if !ok {
		return StringV{}, false
	}
	elems := ex.sliceElems(va)
	var out []byte
	k := 0
	for i := 0; i < len(format); i++ {
		c := format[i]
		if c != '%' {
			out = append(out, c)
			continue
		}
		i++
		if i >= len(format) {
			return StringV{}, false
		}
		verb := format[i]
		if verb == '%' {
			out = append(out, '%')
			continue
		}
		if k >= len(elems) || (verb != 's' && verb != 'd' && verb != 'v') {
			return StringV{}, false
		}
		iv, ok := elems[k].(IfaceV)
		k++
		if !ok {
			return StringV{}, false
		}
		switch x := iv.V.(type) {
		case StringV:
			cs, ok := concreteString(x)
			if !ok {
				return StringV{}, false
			}
			out = append(out, cs...)
		case *Term:
			if !x.Const || (x.Sort.K != SBV && x.Sort.K != SInt) {
				return StringV{}, false
			}
			if _, isInt := intInfoOf(iv.T); !isInt {
				return StringV{}, false
			}
			ii, _ := intInfoOf(iv.T)
			if ii.signed {
				out = append(out, x.BigS().String()...)
			} else {
				out = append(out, x.BigU().String()...)
			}
		default:
			return StringV{}, false
		}
	}
	if k != len(elems) {
		return StringV{}, false
	}
	return ex.strConst(string(out)), true
}

func fmtPlaceholder(ex *Exec, args []Value, fmtIdx int) StringV {
	if s, ok := fmtConcrete(ex, args, fmtIdx); ok {
		return s
	}
	if fmtIdx >= 0 && fmtIdx < len(args) {
		if s, ok := args[fmtIdx].(StringV); ok {
			if cs, ok := concreteString(s); ok {
				return ex.strConst("<fmt:" + cs + ">")
			}
		}
	}
	return ex.strConst("<fmt>")
}

func init() {
	type H = intrinsicFn
	// ---- fmt: formatted text is an opaque placeholder (messages are not the subject)
	registerIntrinsic("fmt.Sprintf", func(ex *Exec, fr *Frame, fn *ssa.Function, a []Value, site ssa.Instruction) Value {
		if ex.exactFmt && ex.specDepth == 0 {
			// vxExactFormat(): formatting is the subject of this harness
			if fs, ok := a[0].(StringV); ok {
				if format, ok := concreteString(fs); ok {
					if sl, ok := a[1].(SliceV); ok {
						if bytes, ok := fmtSymbolic(ex, format, ex.sliceElems(sl)); ok {
							return StringV{B: bytes}
						}
					}
				}
			}
		}
		return fmtPlaceholder(ex, a, 0)
	})
	vxAPI["vxExactFormat"] = func(ex *Exec, fr *Frame, fn *ssa.Function, args []Value, site ssa.Instruction) Value {
		ex.exactFmt = true
		return nil
	}
	registerIntrinsic("fmt.Sprint", func(ex *Exec, fr *Frame, fn *ssa.Function, a []Value, site ssa.Instruction) Value {
		return ex.strConst("<fmt.Sprint>")
	})
	registerIntrinsic("fmt.Sprintln", func(ex *Exec, fr *Frame, fn *ssa.Function, a []Value, site ssa.Instruction) Value {
		return ex.strConst("<fmt.Sprintln>")
	})
	registerIntrinsic("fmt.Errorf", func(ex *Exec, fr *Frame, fn *ssa.Function, a []Value, site ssa.Instruction) Value {
		return IfaceV{T: runtimeErrorType, V: fmtPlaceholder(ex, a, 0)}
	})
	for _, n := range []string{"fmt.Fprintf", "fmt.Fprint", "fmt.Fprintln", "fmt.Printf", "fmt.Println", "fmt.Print"} {
		registerIntrinsic(n, func(ex *Exec, fr *Frame, fn *ssa.Function, a []Value, site ssa.Instruction) Value {
			return TupleV{ex.goInt(0), IfaceV{}}
		})
	}
	registerIntrinsic("internal/abi.NoEscape", func(ex *Exec, fr *Frame, fn *ssa.Function, a []Value, site ssa.Instruction) Value {
		return a[0]
	})
	registerIntrinsic("internal/abi.Escape", func(ex *Exec, fr *Frame, fn *ssa.Function, a []Value, site ssa.Instruction) Value {
		return a[0]
	})
	registerIntrinsic("runtime.KeepAlive", func(ex *Exec, fr *Frame, fn *ssa.Function, a []Value, site ssa.Instruction) Value {
		return nil
	})
	registerIntrinsic("runtime.Gosched", func(ex *Exec, fr *Frame, fn *ssa.Function, a []Value, site ssa.Instruction) Value {
		return nil
	})

	// ---- math
	registerIntrinsic("math.Float64bits", func(ex *Exec, fr *Frame, fn *ssa.Function, a []Value, site ssa.Instruction) Value {
		return ex.ts.FPBits(a[0].(*Term))
	})
	registerIntrinsic("math.Float32bits", func(ex *Exec, fr *Frame, fn *ssa.Function, a []Value, site ssa.Instruction) Value {
		return ex.ts.FPBits(a[0].(*Term))
	})
	registerIntrinsic("math.Float64frombits", func(ex *Exec, fr *Frame, fn *ssa.Function, a []Value, site ssa.Instruction) Value {
		return ex.ts.FPFromBits(F64Sort, a[0].(*Term))
	})
	registerIntrinsic("math.Float32frombits", func(ex *Exec, fr *Frame, fn *ssa.Function, a []Value, site ssa.Instruction) Value {
		return ex.ts.FPFromBits(F32Sort, a[0].(*Term))
	})
	fpun := func(op string) H {
		return func(ex *Exec, fr *Frame, fn *ssa.Function, a []Value, site ssa.Instruction) Value {
			return ex.ts.FPUn(op, a[0].(*Term))
		}
	}
	registerIntrinsic("math.Abs", fpun("fp.abs"))
	registerIntrinsic("math.Floor", fpun("fp.floor"))
	registerIntrinsic("math.Ceil", fpun("fp.ceil"))
	registerIntrinsic("math.Trunc", fpun("fp.trunc"))
	registerIntrinsic("math.Sqrt", fpun("fp.sqrt"))
	registerIntrinsic("math.IsNaN", func(ex *Exec, fr *Frame, fn *ssa.Function, a []Value, site ssa.Instruction) Value {
		return ex.ts.FPPred("fp.isNaN", a[0].(*Term))
	})
	registerIntrinsic("math.IsInf", func(ex *Exec, fr *Frame, fn *ssa.Function, a []Value, site ssa.Instruction) Value {
		ts := ex.ts
		f := a[0].(*Term)
		sign := a[1].(*Term)
		inf := ts.FPPred("fp.isInfinite", f)
		neg := ts.FPPred("fp.isNegative", f)
		var zero, pos, ng *Term
		if ex.intMode {
			ex.unsupported("floats in int mode")
		}
		zero = ts.Eq(sign, ts.BVConst(64, 0))
		pos = ts.BVCmp("bvsgt", sign, ts.BVConst(64, 0))
		ng = ts.BVCmp("bvslt", sign, ts.BVConst(64, 0))
		return ts.And(inf, ts.Or(zero, ts.Or(ts.And(pos, ts.Not(neg)), ts.And(ng, neg))))
	})
	registerIntrinsic("math.Inf", func(ex *Exec, fr *Frame, fn *ssa.Function, a []Value, site ssa.Instruction) Value {
		s := a[0].(*Term)
		ts := ex.ts
		return ts.Ite(ts.BVCmp("bvsge", s, ts.BVConst(64, 0)), ts.F64Const(math.Inf(1)), ts.F64Const(math.Inf(-1)))
	})
	registerIntrinsic("math.NaN", func(ex *Exec, fr *Frame, fn *ssa.Function, a []Value, site ssa.Instruction) Value {
		return ex.ts.F64Const(math.NaN())
	})
	registerIntrinsic("math.Signbit", func(ex *Exec, fr *Frame, fn *ssa.Function, a []Value, site ssa.Instruction) Value {
		b := ex.ts.FPBits(a[0].(*Term))
		return ex.ts.Eq(ex.ts.Extract(63, 63, b), ex.ts.BVConst(1, 1))
	})
	// transcendental and remainder functions: uninterpreted (same arguments, same result)
	for _, n := range []string{"Mod", "Pow", "Remainder", "Atan2", "Hypot", "Max", "Min", "Copysign", "Dim"} {
		name := n
		registerIntrinsic("math."+name, func(ex *Exec, fr *Frame, fn *ssa.Function, a []Value, site ssa.Instruction) Value {
			x, y := a[0].(*Term), a[1].(*Term)
			if x.Const && y.Const {
				if f := mathBin(name, x.F64(), y.F64()); f != nil {
					return ex.ts.F64Const(*f)
				}
			}
			return ex.ts.UF("math."+name, F64Sort, x, y)
		})
	}
	for _, n := range []string{"Log", "Log2", "Log10", "Log1p", "Exp", "Exp2", "Expm1", "Sin", "Cos", "Tan", "Asin", "Acos", "Atan", "Sinh", "Cosh", "Tanh", "Asinh", "Acosh", "Atanh", "Cbrt", "Round", "RoundToEven", "Gamma", "Erf", "Erfc"} {
		name := n
		registerIntrinsic("math."+name, func(ex *Exec, fr *Frame, fn *ssa.Function, a []Value, site ssa.Instruction) Value {
			return ex.ts.UF("math."+name, F64Sort, a[0].(*Term))
		})
	}

	// ---- strings.Builder grows through unsafe tricks; model the observable behaviour
	registerIntrinsic("(*strings.Builder).copyCheck", func(ex *Exec, fr *Frame, fn *ssa.Function, a []Value, site ssa.Instruction) Value {
		return nil
	})

	// ---- errors / misc
	registerIntrinsic("os.Getenv", func(ex *Exec, fr *Frame, fn *ssa.Function, a []Value, site ssa.Instruction) Value {
		return StringV{}
	})
	registerIntrinsic("os.LookupEnv", func(ex *Exec, fr *Frame, fn *ssa.Function, a []Value, site ssa.Instruction) Value {
		return TupleV{StringV{}, ex.ts.False()}
	})
	_ = strings.Contains
	_ = types.Typ
}

func mathBin(name string, x, y float64) *float64 {
	var r float64
	switch name {
	case "Mod":
		r = math.Mod(x, y)
	case "Pow":
		r = math.Pow(x, y)
	case "Max":
		r = math.Max(x, y)
	case "Min":
		r = math.Min(x, y)
	case "Copysign":
		r = math.Copysign(x, y)
	case "Remainder":
		r = math.Remainder(x, y)
	default:
		return nil
	}
	return &r
}

func (ex *Exec) cmpStrings(x, y StringV) *Term {
	lt := ex.stringLess(x, y, false)
	gt := ex.stringLess(y, x, false)
	return ex.ts.Ite(lt, ex.goInt(-1), ex.ts.Ite(gt, ex.goInt(1), ex.goInt(0)))
}

func init() {
	cmp := func(ex *Exec, fr *Frame, fn *ssa.Function, a []Value, site ssa.Instruction) Value {
		return ex.cmpStrings(a[0].(StringV), a[1].(StringV))
	}
	registerIntrinsic("strings.Compare", cmp)
	registerIntrinsic("internal/bytealg.CompareString", cmp)
	registerIntrinsic("internal/bytealg.abigen_runtime_cmpstring", cmp)
	registerIntrinsic("internal/bytealg.Compare", func(ex *Exec, fr *Frame, fn *ssa.Function, a []Value, site ssa.Instruction) Value {
		toS := func(v Value) StringV {
			var bs []*Term
			for _, e := range ex.sliceElems(v.(SliceV)) {
				bs = append(bs, e.(*Term))
			}
			return StringV{B: bs}
		}
		return ex.cmpStrings(toS(a[0]), toS(a[1]))
	})
}

func init() {
	registerIntrinsic("internal/bytealg.MakeNoZero", func(ex *Exec, fr *Frame, fn *ssa.Function, a []Value, site ssa.Instruction) Value {
		n := ex.concreteIntOrAbort(a[0].(*Term), 65, "MakeNoZero len")
		if n < 0 || n > 1<<20 {
			ex.goPanicRuntime("makeslice: len out of range", ex.posOf(site))
		}
		elems := make([]Value, n)
		for i := range elems {
			elems[i] = ex.byteConst(0)
		}
		return ex.newSlice(types.Typ[types.Uint8], elems, n, "MakeNoZero")
	})
}

func init() {
	// internal/bytealg index/count primitives (assembly in the real runtime): if-then-else chains
	indexByte := func(ex *Exec, bs []*Term, c *Term) *Term {
		acc := ex.goInt(-1)
		for i := len(bs) - 1; i >= 0; i-- {
			acc = ex.ts.Ite(ex.ts.Eq(bs[i], c), ex.goInt(int64(i)), acc)
		}
		return acc
	}
	sliceBytes := func(ex *Exec, v Value) []*Term {
		var bs []*Term
		for _, e := range ex.sliceElems(v.(SliceV)) {
			bs = append(bs, e.(*Term))
		}
		return bs
	}
	registerIntrinsic("internal/bytealg.IndexByteString", func(ex *Exec, fr *Frame, fn *ssa.Function, a []Value, site ssa.Instruction) Value {
		return indexByte(ex, a[0].(StringV).B, a[1].(*Term))
	})
	registerIntrinsic("internal/bytealg.IndexByte", func(ex *Exec, fr *Frame, fn *ssa.Function, a []Value, site ssa.Instruction) Value {
		return indexByte(ex, sliceBytes(ex, a[0]), a[1].(*Term))
	})
	count := func(ex *Exec, bs []*Term, c *Term) *Term {
		acc := ex.goInt(0)
		for _, b := range bs {
			if ex.intMode {
				acc = ex.ts.Ite(ex.ts.Eq(b, c), ex.ts.IntBin("+", acc, ex.ts.IntConst64(1)), acc)
			} else {
				acc = ex.ts.Ite(ex.ts.Eq(b, c), ex.ts.BVBin("bvadd", acc, ex.ts.BVConst(64, 1)), acc)
			}
		}
		return acc
	}
	registerIntrinsic("internal/bytealg.CountString", func(ex *Exec, fr *Frame, fn *ssa.Function, a []Value, site ssa.Instruction) Value {
		return count(ex, a[0].(StringV).B, a[1].(*Term))
	})
	registerIntrinsic("internal/bytealg.Count", func(ex *Exec, fr *Frame, fn *ssa.Function, a []Value, site ssa.Instruction) Value {
		return count(ex, sliceBytes(ex, a[0]), a[1].(*Term))
	})
}

func init() {
	// fatih/color: colour codes are elided - Sprint returns the concatenation of its string
	// operands (what remains when the escape sequences are deleted)
	const pkg = "github.com/fatih/color"
	registerIntrinsic(pkg+".New", func(ex *Exec, fr *Frame, fn *ssa.Function, a []Value, site ssa.Instruction) Value {
		rt := fn.Signature.Results().At(0).Type().(*types.Pointer).Elem()
		return Pointer{Obj: ex.newObject(rt, "color.Color")}
	})
	registerIntrinsic("(*"+pkg+".Color).Sprint", func(ex *Exec, fr *Frame, fn *ssa.Function, a []Value, site ssa.Instruction) Value {
		var out []*Term
		for _, e := range ex.sliceElems(a[1].(SliceV)) {
			iv, ok := e.(IfaceV)
			if !ok {
				ex.unsupported("color.Sprint operand %T", e)
			}
			s, ok := iv.V.(StringV)
			if !ok {
				ex.unsupported("color.Sprint of a non-string operand")
			}
			out = append(out, s.B...)
		}
		return StringV{B: out}
	})
}

// ---- fmt.Fprintf into a *strings.Builder where formatting IS the subject (inspect output):
// literal text, %%, %s, %x/%X (plain or with a zero-padded width) and %d / %Nd / %0Nd on symbolic integers.
func fmtSymbolic(ex *Exec, format string, elems []Value) ([]*Term, bool) {
	var out []*Term
	k := 0
	for i := 0; i < len(format); i++ {
		c := format[i]
		if c != '%' {
			out = append(out, ex.byteConst(c))
			continue
		}
		i++
		if i >= len(format) {
			return nil, false
		}
		if format[i] == '%' {
			out = append(out, ex.byteConst('%'))
			continue
		}
		width := 0
		zero := false
		if format[i] == '0' {
			zero = true
			i++
		}
		for i < len(format) && format[i] >= '0' && format[i] <= '9' {
			width = width*10 + int(format[i]-'0')
			i++
		}
		if i >= len(format) || k >= len(elems) {
			return nil, false
		}
		verb := format[i]
		iv, ok := elems[k].(IfaceV)
		k++
		if !ok {
			return nil, false
		}
		switch verb {
		case 's':
			s, ok := iv.V.(StringV)
			if !ok || width != 0 {
				return nil, false
			}
			out = append(out, s.B...)
		case 'x', 'X':
			v, ok := iv.V.(*Term)
			if !ok || v.Sort.K != SBV {
				return nil, false
			}
			w := v.Sort.W
			if !zero && width == 0 {
				// plain %x: as many digits as the value needs (one path per digit count)
				if b, isBasic := iv.T.Underlying().(*types.Basic); !isBasic || b.Info()&types.IsInteger == 0 {
					return nil, false
				} else if b.Info()&types.IsUnsigned == 0 {
					neg := ex.ts.BVCmp("bvslt", v, ex.ts.BVConst(w, 0))
					if !neg.IsFalse() && (ex.sol == nil || ex.sol.Check(neg) != "unsat") {
						return nil, false
					}
				}
				nd := (w + 3) / 4
				conds := make([]*Term, nd)
				for d := 0; d < nd; d++ {
					c := ex.ts.True()
					if d > 0 {
						c = ex.ts.BVCmp("bvuge", v, ex.ts.BVBig(w, new(big.Int).Lsh(big.NewInt(1), uint(4*d))))
					}
					if 4*(d+1) < w {
						c = ex.ts.And(c, ex.ts.BVCmp("bvult", v, ex.ts.BVBig(w, new(big.Int).Lsh(big.NewInt(1), uint(4*(d+1))))))
					}
					conds[d] = c
				}
				width = 1 + ex.decide(conds, "fmt %x digit count")
				zero = true
			}
			if !zero || width == 0 || width > 16 {
				return nil, false
			}
			// exactly `width` digits when the value is non-negative and below 16^width
			if 4*width < w {
				limit := ex.ts.BVBig(w, new(big.Int).Lsh(big.NewInt(1), uint(4*width)))
				fits := ex.ts.BVCmp("bvult", v, limit)
				if !fits.IsTrue() && (ex.sol == nil || ex.sol.Check(ex.ts.Not(fits)) != "unsat") {
					return nil, false
				}
			}
			for d := width - 1; d >= 0; d-- {
				var nib *Term
				if 4*d+3 < w {
					nib = ex.ts.Extract(4*d+3, 4*d, v)
				} else if 4*d < w {
					nib = ex.ts.ZeroExt(ex.ts.Extract(w-1, 4*d, v), 4)
				} else {
					nib = ex.ts.BVConst(4, 0)
				}
				n8 := ex.ts.ZeroExt(nib, 8)
				letter := byte('a')
				if verb == 'X' {
					letter = 'A'
				}
				digit := ex.ts.Ite(ex.ts.BVCmp("bvult", n8, ex.ts.BVConst(8, 10)),
					ex.ts.BVBin("bvadd", n8, ex.ts.BVConst(8, '0')),
					ex.ts.BVBin("bvadd", n8, ex.ts.BVConst(8, uint64(letter)-10)))
				out = append(out, digit)
			}
		case 'd':
			v, ok := iv.V.(*Term)
			if !ok || (v.Sort.K != SBV && v.Sort.K != SInt) || width > 32 {
				return nil, false
			}
			b, isBasic := iv.T.Underlying().(*types.Basic)
			if !isBasic || b.Info()&types.IsInteger == 0 {
				return nil, false
			}
			digits, neg := fmtDecimal(ex, v, b.Info()&types.IsUnsigned == 0)
			n := len(digits)
			if neg {
				n++
			}
			if !zero {
				for ; n < width; n++ {
					out = append(out, ex.byteConst(' '))
				}
			}
			if neg {
				out = append(out, ex.byteConst('-'))
			}
			if zero {
				for ; n < width; n++ {
					out = append(out, ex.byteConst('0'))
				}
			}
			out = append(out, digits...)
		default:
			return nil, false
		}
	}
	if k != len(elems) {
		return nil, false
	}
	return out, true
}

// fmtDecimal: the decimal digits (as ASCII byte terms, most significant first) of a symbolic
// integer and its sign. One path per sign and per digit count; on each path the digits are fresh
// variables d_i in [0,9] tied to the magnitude by the linear equation sum d_i*10^i = |v|, which has
// exactly one solution, so nothing about v is assumed. The arithmetic is done at the narrowest of
// 16/32/64 bits that holds 10^digits (no division, no wide multiplication).
func fmtDecimal(ex *Exec, v *Term, signed bool) (digits []*Term, neg bool) {
	ts := ex.ts
	if v.Sort.K == SInt {
		return fmtDecimalInt(ex, v)
	}
	w := v.Sort.W
	mag := v
	if signed {
		isNeg := ts.BVCmp("bvslt", v, ts.BVConst(w, 0))
		if ex.decide([]*Term{ts.Not(isNeg), isNeg}, "fmt %d sign") == 1 {
			neg = true
			mag = ts.BVNeg(v)
		}
	}
	maxDigits := 1
	for p := big.NewInt(10); p.BitLen() <= w; p.Mul(p, big.NewInt(10)) {
		maxDigits++
	}
	pow := func(k int) *big.Int { return new(big.Int).Exp(big.NewInt(10), big.NewInt(int64(k)), nil) }
	conds := make([]*Term, maxDigits)
	for d := 1; d <= maxDigits; d++ {
		c := ts.True()
		if d > 1 {
			c = ts.BVCmp("bvuge", mag, ts.BVBig(w, pow(d-1)))
		}
		if d < maxDigits {
			c = ts.And(c, ts.BVCmp("bvult", mag, ts.BVBig(w, pow(d))))
		}
		conds[d-1] = c
	}
	nd := 1 + ex.decide(conds, "fmt %d digit count")
	ww := 64
	switch {
	case nd <= 4 && w >= 16:
		ww = 16
	case nd <= 9 && w >= 32:
		ww = 32
	}
	if ww > w {
		ww = w
	}
	low := mag
	if ww < w {
		low = ts.Extract(ww-1, 0, mag)
	}
	if pow(nd).BitLen() > ww {
		// the digit sum could wrap around at this width (20 digits at 64 bits): add headroom
		ww += 8
		low = ts.ZeroExt(low, ww)
	}
	sum := ts.BVConst(ww, 0)
	digits = make([]*Term, nd)
	for i := 0; i < nd; i++ {
		d := ex.freshVar("fmt.digit", BV(8))
		ex.assertPC(ts.BVCmp("bvule", d, ts.BVConst(8, 9)))
		digits[nd-1-i] = ts.BVBin("bvadd", d, ts.BVConst(8, '0'))
		sum = ts.BVBin("bvadd", sum, ts.BVBin("bvmul", ts.ZeroExt(d, ww), ts.BVBig(ww, pow(i))))
	}
	ex.assertPC(ts.Eq(sum, low))
	return digits, neg
}

func init() {
	registerIntrinsic("fmt.Fprintf", func(ex *Exec, fr *Frame, fn *ssa.Function, a []Value, site ssa.Instruction) Value {
		noop := TupleV{ex.goInt(0), IfaceV{}}
		if ex.intMode && !ex.exactFmt {
			return noop
		}
		w, ok := a[0].(IfaceV)
		if !ok {
			return noop
		}
		bp, ok := w.V.(Pointer)
		if !ok || bp.Obj == nil || !strings.HasSuffix(typeString(w.T), "strings.Builder") {
			return noop // other writers (stdout, buffers of messages): formatting is not the subject
		}
		fs, ok := a[1].(StringV)
		if !ok {
			ex.unsupported("fmt.Fprintf into a strings.Builder with a non-string format")
		}
		format, ok := concreteString(fs)
		if !ok {
			ex.unsupported("fmt.Fprintf into a strings.Builder with a symbolic format")
		}
		bytes, ok := fmtSymbolic(ex, format, ex.sliceElems(a[2].(SliceV)))
		if !ok {
			ex.unsupported("fmt.Fprintf(%q) into a strings.Builder: verb/operand outside the exact model", format)
		}
		// append through the real (*strings.Builder).WriteString
		var ws *ssa.Function
		if p, ok := w.T.(*types.Pointer); ok {
			if named, ok := p.Elem().(*types.Named); ok {
				for i := 0; i < named.NumMethods(); i++ {
					if m := named.Method(i); m.Name() == "WriteString" {
						ws = ex.P.Prog.FuncValue(m)
					}
				}
			}
		}
		if ws == nil {
			ex.unsupported("strings.Builder.WriteString not found")
		}
		ex.callFunction(fr, ws, []Value{bp, StringV{B: bytes}}, nil, site)
		return TupleV{ex.goInt(int64(len(bytes))), IfaceV{}}
	})
}

// fmtDecimalInt: the same over mathematical integers (vxMode("int")); machine integers have at
// most 20 digits.
func fmtDecimalInt(ex *Exec, v *Term) (digits []*Term, neg bool) {
	ts := ex.ts
	zero := ts.IntConst64(0)
	mag := v
	isNeg := ts.IntCmp("<", v, zero)
	if ex.decide([]*Term{ts.Not(isNeg), isNeg}, "fmt %d sign") == 1 {
		neg = true
		mag = ts.IntNeg(v)
	}
	const maxDigits = 20
	pow := func(k int) *Term { return ts.IntConst(new(big.Int).Exp(big.NewInt(10), big.NewInt(int64(k)), nil)) }
	conds := make([]*Term, maxDigits)
	for d := 1; d <= maxDigits; d++ {
		c := ts.True()
		if d > 1 {
			c = ts.IntCmp(">=", mag, pow(d-1))
		}
		if d < maxDigits {
			c = ts.And(c, ts.IntCmp("<", mag, pow(d)))
		}
		conds[d-1] = c
	}
	nd := 1 + ex.decide(conds, "fmt %d digit count")
	sum := zero
	digits = make([]*Term, nd)
	for i := 0; i < nd; i++ {
		d := ex.freshVar("fmt.digit", IntSort)
		ex.assertPC(ts.And(ts.IntCmp(">=", d, zero), ts.IntCmp("<=", d, ts.IntConst64(9))))
		digits[nd-1-i] = ts.IntBin("+", d, ts.IntConst64('0'))
		sum = ts.IntBin("+", sum, ts.IntBin("*", d, pow(i)))
	}
	ex.assertPC(ts.Eq(sum, mag))
	return digits, neg
}
