#!/bin/sh
# Build the engine offline from /verif/engine (go1.26.8 + golang.org/x/tools v0.50.0 from the module cache).
set -e
cd "$(dirname "$0")"
export PATH=/opt/veriftools/go1.26.8/bin:$PATH
export GOTOOLCHAIN=local GOFLAGS=-mod=mod GOPROXY=off GONOSUMDB='*' GONOSUMCHECK=1
mkdir -p bin evidence/replay
(cd engine && go build -o ../bin/vx .)
echo "vx built: $(ls -la bin/vx | awk '{print $5}') bytes"
