//go:build verif

package bytecode

// C32: the run-length line table is an exact map instruction-index -> line.

// vxLineList builds an arbitrary well-formed list of n entries (counts >= 1).
func vxLineList(n int) LineInfoList {
	var l LineInfoList
	for i := 0; i < n; i++ {
		line := vxInt("line" + string(rune('0'+i)))
		cnt := vxInt("cnt" + string(rune('0'+i)))
		vxAssume(cnt >= 1 && cnt <= 1<<20)
		l = append(l, NewLineInfo(line, cnt))
	}
	return l
}

// flat(l)[i] computed by the definition: the line of the entry whose cumulative range holds i
func vxFlatAt(l LineInfoList, i int) (int, bool) {
	if i < 0 {
		return 0, false
	}
	start := 0
	for _, e := range l {
		if i >= start && i < start+e.InstructionCount {
			return e.LineNumber, true
		}
		start += e.InstructionCount
	}
	return 0, false
}

func vxTotal(l LineInfoList) int {
	t := 0
	for _, e := range l {
		t += e.InstructionCount
	}
	return t
}

func VX_C32_lookup() {
	n := vxSplit("entries", 4)
	l := vxLineList(n)
	i := vxInt("i")
	vxAssume(i >= 0)
	want, ok := vxFlatAt(l, i)
	got := l.GetLineNumber(i)
	if ok {
		vxAssert(got == want, "lookup-inside")
	} else {
		vxAssert(got == -1, "lookup-past-end")
	}
}

func VX_C32_add() {
	n := vxSplit("entries", 4)
	l := vxLineList(n)
	// adjacent entries of a list built by AddLineNumber never share a line
	for k := 1; k < len(l); k++ {
		vxAssume(l[k-1].LineNumber != l[k].LineNumber)
	}
	total := vxTotal(l)
	line, bytes := vxInt("line"), vxInt("bytes")
	vxAssume(bytes >= 1 && bytes <= 1<<20)
	i := vxInt("i")
	vxAssume(i >= 0 && i < total+bytes)
	before, inOld := vxFlatAt(l, i)
	l.AddLineNumber(line, bytes)
	got := l.GetLineNumber(i)
	if inOld {
		vxAssert(got == before, "add-keeps-old")
	} else {
		vxAssert(got == line, "add-appends-line")
	}
	vxAssert(l.GetLineNumber(total+bytes) == -1, "add-length")
	for k := 1; k < len(l); k++ {
		vxAssert(l[k-1].LineNumber != l[k].LineNumber, "add-keeps-runs-maximal")
	}
	for k := 0; k < len(l); k++ {
		vxAssert(l[k].InstructionCount >= 1, "add-counts-positive")
	}
}

func VX_C32_remove() {
	n := 1 + vxSplit("entries", 3)
	l := vxLineList(n)
	total := vxTotal(l)
	i := vxInt("i")
	vxAssume(i >= 0 && i < total-1)
	before, _ := vxFlatAt(l, i)
	l.RemoveByte()
	vxAssert(l.GetLineNumber(i) == before, "remove-keeps-prefix")
	vxAssert(l.GetLineNumber(total-1) == -1, "remove-drops-last")
	for k := 0; k < len(l); k++ {
		vxAssert(l[k].InstructionCount >= 1, "remove-counts-positive")
	}
}
