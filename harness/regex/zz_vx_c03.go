//go:build verif

package regex

import (
	"github.com/elk-language/elk/bitfield"
)

// C03 (regex front end): the regex lexer, parser and transpiler are total on every pattern of
// <= N bytes and every flag set: they return a Go regex source or a non-empty diagnostic list,
// never a Go panic, and always terminate.
func VX_C03_regex_transpile() {
	vxTerminates(64)
	n := vxSplit("len", 3+vxTier()) // 0..2 bytes (quick), 0..3 bytes (thorough)
	pat := vxString("pat", n)
	flags := bitfield.BitField8FromInt(vxUint8("flags"))
	out, err := Transpile(pat, flags)
	if err != nil {
		vxAssert(len(err) > 0, "regex/failure-comes-with-diagnostics")
	} else {
		vxAssert(len(out) >= 0, "regex/success-returns-a-string")
	}
	vxCover("regex/reached")
}
