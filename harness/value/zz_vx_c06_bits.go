//go:build verif

package value

import "math/big"

// C06, bit-vector back end: bitwise operators and shifts of Int (big integers are 192-bit
// two's complement with |v| < 2^126, see vxBig).

func VX_C06_bitwise() {
	a, b := vxElkInt("a"), vxElkInt("b")
	A, _ := vxMath(a)
	B, _ := vxMath(b)
	r, err := BitwiseAndVal(a, b)
	vxCheckInt(r, err, new(big.Int).And(A, B), "and")
	r, err = BitwiseOrVal(a, b)
	vxCheckInt(r, err, new(big.Int).Or(A, B), "or")
	r, err = BitwiseXorVal(a, b)
	vxCheckInt(r, err, new(big.Int).Xor(A, B), "xor")
	r, err = BitwiseAndNotVal(a, b)
	vxCheckInt(r, err, new(big.Int).AndNot(A, B), "andnot")
}

func VX_C06_bitnot() {
	a := vxElkInt("a")
	A, _ := vxMath(a)
	vxCheckInt(BitwiseNotVal(a), Undefined, new(big.Int).Not(A), "not")
}

// shifts: every AnyInt kind as the count. Exact for |count| <= 100, no crash for any count.
func VX_C06_shl() {
	a := vxElkInt("a")
	A, _ := vxMath(a)
	s, S := vxAnyInt("s")
	r, err := LeftBitshiftVal(a, s)
	A2, _ := vxMath(a)
	vxAssert(A2.Cmp(A) == 0, "shl/operand-unchanged")
	vxAssert(err.IsUndefined(), "shl/accepted-operand-never-errors")
	if S.IsInt64() && S.Int64() >= -100 && S.Int64() <= 100 {
		vxCheckInt(r, err, vxShiftSpec(A, S.Int64()), "shl")
	}
}

func VX_C06_shr() {
	a := vxElkInt("a")
	A, _ := vxMath(a)
	s, S := vxAnyInt("s")
	r, err := RightBitshiftVal(a, s)
	A2, _ := vxMath(a)
	vxAssert(A2.Cmp(A) == 0, "shr/operand-unchanged")
	vxAssert(err.IsUndefined(), "shr/accepted-operand-never-errors")
	if S.IsInt64() && S.Int64() >= -100 && S.Int64() <= 100 {
		vxCheckInt(r, err, vxShiftSpec(A, -S.Int64()), "shr")
	}
}
