//go:build verif

package value

// C24: lists and tuples behave as sequences (model: a Go slice of the element values).

// vxList: a list of n symbolic SmallInt elements with capacity n+extra
func vxList(name string, n, extra int) (*ArrayListOfValue, []int64) {
	l := make(ArrayListOfValue, 0, n+extra)
	model := make([]int64, n)
	for i := 0; i < n; i++ {
		x := vxInt64(name + string(rune('0'+i)))
		model[i] = x
		l = append(l, SmallInt(x).ToValue())
	}
	return &l, model
}

func vxListIs(l *ArrayListOfValue, model []int64) bool {
	if l.Length() != len(model) {
		return false
	}
	for i, x := range model {
		v := (*l)[i]
		if !v.IsSmallInt() || int64(v.AsSmallInt()) != x {
			return false
		}
	}
	return true
}

// index normalisation: negative indices count from the end
func vxNorm(i, n int) (int, bool) {
	if i >= n || i < -n {
		return 0, false
	}
	if i < 0 {
		return n + i, true
	}
	return i, true
}

func VX_C24_get_set() {
	n := vxSplit("len", 4)
	l, model := vxList("e", n, vxSplit("extra", 2))
	i := vxInt("i")
	k, ok := vxNorm(i, n)
	got, err := l.Get(i)
	if ok {
		vxAssert(err.IsUndefined() && got.IsSmallInt() && int64(got.AsSmallInt()) == model[k], "get/element")
	} else {
		vxAssert(vxIsErrorOf(err, IndexErrorClass), "get/out-of-range-error")
	}
	// Subscript with an Elk Int key (small or big)
	key := vxElkInt("key")
	K, _ := vxMath(key)
	g2, err2 := l.Subscript(key)
	if K.IsInt64() {
		kk, ok2 := vxNorm(int(K.Int64()), n)
		if ok2 {
			vxAssert(err2.IsUndefined() && g2.IsSmallInt() && int64(g2.AsSmallInt()) == model[kk], "subscript/element")
		} else {
			vxAssert(vxIsErrorOf(err2, IndexErrorClass), "subscript/out-of-range-error")
		}
	} else {
		vxAssert(vxIsErrorOf(err2, IndexErrorClass), "subscript/big-index-out-of-range-error")
	}
	v := vxInt64("v")
	errS := l.Set(i, SmallInt(v).ToValue())
	if ok {
		model[k] = v
		vxAssert(errS.IsUndefined(), "set/no-error")
	} else {
		vxAssert(vxIsErrorOf(errS, IndexErrorClass), "set/out-of-range-error")
	}
	vxAssert(vxListIs(l, model), "set/only-that-element-changes")
}

func VX_C24_remove_append() {
	n := vxSplit("len", 4)
	l, model := vxList("e", n, vxSplit("extra", 2))
	i := vxInt("i")
	k, ok := vxNorm(i, n)
	err := l.RemoveAtErr(i)
	if ok {
		vxAssert(err.IsUndefined(), "remove/no-error")
		model = append(model[:k:k], model[k+1:]...)
	} else {
		vxAssert(vxIsErrorOf(err, IndexErrorClass), "remove/out-of-range-error")
	}
	vxAssert(vxListIs(l, model), "remove/sequence")
	v := vxInt64("v")
	l.Append(SmallInt(v).ToValue())
	model = append(model, v)
	vxAssert(vxListIs(l, model), "append/sequence")
}

func VX_C24_concat_repeat() {
	n := vxSplit("len", 3)
	m := vxSplit("len2", 3)
	l, model := vxList("e", n, vxSplit("extra", 3))
	o, model2 := vxList("f", m, 1)
	r, err := l.Concat(Ref(o))
	vxAssert(err.IsUndefined(), "concat/no-error")
	want0 := append(append([]int64{}, model...), model2...)
	vxAssert(vxListIs(r, want0), "concat/sequence")
	vxAssert(vxListIs(l, model) && vxListIs(o, model2), "concat/operands-unchanged")
	// the result is a fresh list: a later append to the left operand does not show through it
	fx := vxInt64("fresh")
	l.Append(SmallInt(fx).ToValue())
	vxAssert(vxListIs(r, want0), "concat/result-independent-of-later-append-to-operand")
	l.RemoveAt(n)
	k := vxInt64("k")
	vxAssume(k <= 3)
	rep, err2 := l.Repeat(SmallInt(k).ToValue())
	if k < 0 {
		vxAssert(vxIsErrorOf(err2, OutOfRangeErrorClass), "repeat/negative-count-error")
		return
	}
	vxAssert(err2.IsUndefined(), "repeat/no-error")
	var want []int64
	for j := int64(0); j < k; j++ {
		want = append(want, model...)
	}
	vxAssert(vxListIs(rep, want), "repeat/sequence")
}

func VX_C24_grow_expand_appendat() {
	n := vxSplit("len", 3)
	l, model := vxList("e", n, vxSplit("extra", 2))
	g := vxInt("grow")
	vxAssume(g >= 0 && g <= 4) // the native wrapper rejects negative and huge values
	l.Grow(g)
	vxAssert(vxListIs(l, model) && l.Capacity() >= n+g, "grow/keeps-sequence")
	idx := vxInt("idx")
	vxAssume(idx <= 5)
	v := vxInt64("v")
	err := l.AppendAtInt(idx, SmallInt(v).ToValue())
	if idx < 0 {
		vxAssert(!err.IsUndefined(), "appendat/negative-index-error")
		vxAssert(vxListIs(l, model), "appendat/unchanged-on-error")
		return
	}
	vxAssert(err.IsUndefined(), "appendat/no-error")
	want := model
	for len(want) <= idx {
		want = append(want, 0)
	}
	vxAssert(l.Length() == len(want), "appendat/length")
	ok := true
	for j := range want {
		e := (*l)[j]
		switch {
		case j == idx:
			ok = ok && e.IsSmallInt() && int64(e.AsSmallInt()) == v
		case j < len(model):
			ok = ok && e.IsSmallInt() && int64(e.AsSmallInt()) == model[j]
		default:
			ok = ok && e == Nil
		}
	}
	vxAssert(ok, "appendat/sequence-padded-with-nil")
}

// SetAtVal is part of the ArrayList interface used by map_mut
func VX_C24_setatval() {
	vxTerminates(64)
	l, model := vxList("e", 2, 0)
	v := vxInt64("v")
	l.SetAtVal(1, SmallInt(v).ToValue())
	model[1] = v
	vxAssert(vxListIs(l, model), "setatval/sets-the-element")
}
