//go:build verif

package value

import "math/big"

// C07: fixed-width integers are two's complement modulo 2^n for every admitted right
// operand kind; floats follow IEEE-754.

type vxStrict struct {
	v      Value
	w      int
	signed bool
	raw    uint64 // the n-bit pattern, zero-extended
}

func vxStrictInt(name string) vxStrict {
	switch vxSplit(name+".kind", 9) {
	case 0:
		x := vxInt8(name)
		return vxStrict{Int8(x).ToValue(), 8, true, uint64(uint8(x))}
	case 1:
		x := vxInt16(name)
		return vxStrict{Int16(x).ToValue(), 16, true, uint64(uint16(x))}
	case 2:
		x := vxInt32(name)
		return vxStrict{Int32(x).ToValue(), 32, true, uint64(uint32(x))}
	case 3:
		x := vxInt64(name)
		return vxStrict{Int64(x).ToValue(), 64, true, uint64(x)}
	case 4:
		x := vxUint8(name)
		return vxStrict{UInt8(x).ToValue(), 8, false, uint64(x)}
	case 5:
		x := vxUint16(name)
		return vxStrict{UInt16(x).ToValue(), 16, false, uint64(x)}
	case 6:
		x := vxUint32(name)
		return vxStrict{UInt32(x).ToValue(), 32, false, uint64(x)}
	case 7:
		x := vxUint64(name)
		return vxStrict{UInt64(x).ToValue(), 64, false, x}
	default:
		x := vxUint64(name)
		return vxStrict{UInt(x).ToValue(), 64, false, x}
	}
}

// raw bits of a value that must have the same kind as like
func vxStrictRaw(like vxStrict, r Value) (uint64, bool) {
	if r.ValueFlag() != like.v.ValueFlag() || r.IsReference() {
		return 0, false
	}
	switch r.ValueFlag() {
	case INT8_FLAG:
		return uint64(uint8(r.AsInt8())), true
	case INT16_FLAG:
		return uint64(uint16(r.AsInt16())), true
	case INT32_FLAG:
		return uint64(uint32(r.AsInt32())), true
	case INT64_FLAG:
		return uint64(r.AsInlineInt64()), true
	case UINT8_FLAG:
		return uint64(r.AsUInt8()), true
	case UINT16_FLAG:
		return uint64(r.AsUInt16()), true
	case UINT32_FLAG:
		return uint64(r.AsUInt32()), true
	case UINT64_FLAG:
		return uint64(r.AsInlineUInt64()), true
	case UINT_FLAG:
		return uint64(r.AsUInt()), true
	}
	return 0, false
}

func vxMask(w int) uint64 {
	if w == 64 {
		return ^uint64(0)
	}
	return (uint64(1) << uint(w)) - 1
}

// two's complement shift of an n-bit pattern by a mathematical count; negative counts
// shift the other way; |count| >= n saturates.
func vxShiftBits(x uint64, w int, signed bool, S *big.Int, left bool, logical bool) uint64 {
	mag := new(big.Int).Abs(S)
	cnt := uint64(64)
	if mag.Cmp(big.NewInt(64)) < 0 {
		cnt = mag.Uint64()
	}
	if S.Sign() < 0 {
		left = !left
	}
	mask := vxMask(w)
	if left {
		if cnt >= uint64(w) {
			return 0
		}
		return (x << cnt) & mask
	}
	if logical || !signed {
		if cnt >= uint64(w) {
			return 0
		}
		return x >> cnt
	}
	neg := x&(uint64(1)<<uint(w-1)) != 0
	if cnt >= uint64(w) {
		if neg {
			return mask
		}
		return 0
	}
	r := x >> cnt
	if neg {
		r |= mask &^ (mask >> cnt)
	}
	return r
}

func vxShiftHarness(op func(l, r Value) (Value, Value), left, logical bool, id string) {
	l := vxStrictInt("l")
	s, S := vxAnyInt("s")
	r, err := op(l.v, s)
	vxAssert(err.IsUndefined(), id+"/accepted-operand-never-errors")
	if !err.IsUndefined() {
		return
	}
	got, ok := vxStrictRaw(l, r)
	vxAssert(ok, id+"/result-has-the-left-operand-type")
	if S.IsInt64() {
		vxAssert(got == vxShiftBits(l.raw, l.w, l.signed, S, left, logical), id+"/twos-complement")
	} else {
		// counts beyond 64 bits: region of a recorded finding (sign fill is lost)
		vxAssert(got == vxShiftBits(l.raw, l.w, l.signed, S, left, logical), id+"/twos-complement-count-beyond-int64")
	}
}

func VX_C07_shl()  { vxShiftHarness(LeftBitshiftVal, true, false, "shl") }
func VX_C07_shr()  { vxShiftHarness(RightBitshiftVal, false, false, "shr") }
func VX_C07_lshl() { vxShiftHarness(LogicalLeftBitshiftVal, true, true, "lshl") }
func VX_C07_lshr() { vxShiftHarness(LogicalRightBitshiftVal, false, true, "lshr") }

// ---------- same-type arithmetic

func vxSext(x uint64, w int) int64 {
	sh := uint(64 - w)
	return int64(x<<sh) >> sh
}

// expected n-bit result of a same-type binary operator (div/mod: the caller excludes y == 0)
func vxArith(op int, x, y uint64, w int, signed bool) uint64 {
	mask := vxMask(w)
	switch op {
	case 0:
		return (x + y) & mask
	case 1:
		return (x - y) & mask
	case 2:
		return (x * y) & mask
	case 3:
		// Go's truncated division at the operand width (MinInt / -1 wraps)
		if signed {
			switch w {
			case 8:
				return uint64(uint8(int8(x) / int8(y)))
			case 16:
				return uint64(uint16(int16(x) / int16(y)))
			case 32:
				return uint64(uint32(int32(x) / int32(y)))
			}
			return uint64(int64(x) / int64(y))
		}
		switch w {
		case 8:
			return uint64(uint8(x) / uint8(y))
		case 16:
			return uint64(uint16(x) / uint16(y))
		case 32:
			return uint64(uint32(x) / uint32(y))
		}
		return x / y
	case 4:
		if signed {
			switch w {
			case 8:
				return uint64(uint8(int8(x) % int8(y)))
			case 16:
				return uint64(uint16(int16(x) % int16(y)))
			case 32:
				return uint64(uint32(int32(x) % int32(y)))
			}
			return uint64(int64(x) % int64(y))
		}
		switch w {
		case 8:
			return uint64(uint8(x) % uint8(y))
		case 16:
			return uint64(uint16(x) % uint16(y))
		case 32:
			return uint64(uint32(x) % uint32(y))
		}
		return x % y
	case 5:
		return x & y
	case 6:
		return x | y
	case 7:
		return x ^ y
	default:
		return x &^ y
	}
}

func vxSameKind(like vxStrict, name string) vxStrict {
	switch like.v.ValueFlag() {
	case INT8_FLAG:
		x := vxInt8(name)
		return vxStrict{Int8(x).ToValue(), 8, true, uint64(uint8(x))}
	case INT16_FLAG:
		x := vxInt16(name)
		return vxStrict{Int16(x).ToValue(), 16, true, uint64(uint16(x))}
	case INT32_FLAG:
		x := vxInt32(name)
		return vxStrict{Int32(x).ToValue(), 32, true, uint64(uint32(x))}
	case INT64_FLAG:
		x := vxInt64(name)
		return vxStrict{Int64(x).ToValue(), 64, true, uint64(x)}
	case UINT8_FLAG:
		x := vxUint8(name)
		return vxStrict{UInt8(x).ToValue(), 8, false, uint64(x)}
	case UINT16_FLAG:
		x := vxUint16(name)
		return vxStrict{UInt16(x).ToValue(), 16, false, uint64(x)}
	case UINT32_FLAG:
		x := vxUint32(name)
		return vxStrict{UInt32(x).ToValue(), 32, false, uint64(x)}
	case UINT64_FLAG:
		x := vxUint64(name)
		return vxStrict{UInt64(x).ToValue(), 64, false, x}
	default:
		x := vxUint64(name)
		return vxStrict{UInt(x).ToValue(), 64, false, x}
	}
}

func VX_C07_arith() {
	a := vxStrictInt("a")
	b := vxSameKind(a, "b")
	op := vxSplit("op", 9)
	var r, err Value
	switch op {
	case 0:
		r, err = AddVal(a.v, b.v)
	case 1:
		r, err = SubtractVal(a.v, b.v)
	case 2:
		r, err = MultiplyVal(a.v, b.v)
	case 3:
		r, err = DivideVal(a.v, b.v)
	case 4:
		r, err = ModuloVal(a.v, b.v)
	case 5:
		r, err = BitwiseAndVal(a.v, b.v)
	case 6:
		r, err = BitwiseOrVal(a.v, b.v)
	case 7:
		r, err = BitwiseXorVal(a.v, b.v)
	default:
		r, err = BitwiseAndNotVal(a.v, b.v)
	}
	if (op == 3 || op == 4) && b.raw == 0 {
		vxAssert(vxIsErrorOf(err, ZeroDivisionErrorClass), "arith/zero-division-error")
		return
	}
	vxAssert(err.IsUndefined(), "arith/no-error")
	got, ok := vxStrictRaw(a, r)
	vxAssert(ok, "arith/result-type")
	vxAssert(got == vxArith(op, a.raw, b.raw, a.w, a.signed), "arith/modulo-2^n")
}

func VX_C07_unary_cmp() {
	a := vxStrictInt("a")
	b := vxSameKind(a, "b")
	mask := vxMask(a.w)
	n := NegateVal(a.v)
	got, ok := vxStrictRaw(a, n)
	vxAssert(ok && got == (-a.raw)&mask, "neg/modulo-2^n")
	t := BitwiseNotVal(a.v)
	got, ok = vxStrictRaw(a, t)
	vxAssert(ok && got == (^a.raw)&mask, "not/modulo-2^n")
	less := a.raw < b.raw
	if a.signed {
		less = vxSext(a.raw, a.w) < vxSext(b.raw, b.w)
	}
	lt, e1 := LessThanVal(a.v, b.v)
	gt, e2 := GreaterThanVal(b.v, a.v)
	vxAssert(e1.IsUndefined() && e2.IsUndefined(), "cmp/no-error")
	vxAssert(lt == BoolVal(less) && gt == BoolVal(less), "cmp/order")
	vxAssert(EqualVal(a.v, b.v) == BoolVal(a.raw == b.raw), "cmp/equal")
}

// x ** k on fixed-width integers: x^k mod 2^n and the loop terminates for every exponent
func VX_C07_exp() {
	a := vxStrictInt("a")
	b := vxSameKind(a, "k")
	if a.w == 8 {
		vxTerminates(260)
	} else {
		vxTerminates(12)
		vxAssume(b.raw <= 8 || (a.signed && vxSext(b.raw, b.w) < 0))
		vxNote("** on 16/32/64-bit types: exponents <= 8")
	}
	r, err := ExponentiateVal(a.v, b.v)
	vxAssert(err.IsUndefined(), "exp/no-error")
	got, ok := vxStrictRaw(a, r)
	vxAssert(ok, "exp/result-type")
	mask := vxMask(a.w)
	want := uint64(1)
	k := b.raw
	if a.signed && vxSext(b.raw, b.w) < 0 {
		k = 0
	}
	for i := uint64(0); i < k; i++ {
		want = (want * a.raw) & mask
	}
	vxAssert(got == want, "exp/power-modulo-2^n")
}
