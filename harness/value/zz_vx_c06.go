//go:build verif

package value

import "math/big"

// C06: Int arithmetic is exact over unbounded integers and independent of representation.

func VX_C06_add() {
	vxMode("int")
	a, b := vxElkInt("a"), vxElkInt("b")
	A, _ := vxMath(a)
	B, _ := vxMath(b)
	r, err := AddVal(a, b)
	vxCheckInt(r, err, new(big.Int).Add(A, B), "add")
}

func VX_C06_sub() {
	vxMode("int")
	a, b := vxElkInt("a"), vxElkInt("b")
	A, _ := vxMath(a)
	B, _ := vxMath(b)
	r, err := SubtractVal(a, b)
	vxCheckInt(r, err, new(big.Int).Sub(A, B), "sub")
}

func VX_C06_mul() {
	vxMode("int")
	a, b := vxElkInt("a"), vxElkInt("b")
	A, _ := vxMath(a)
	B, _ := vxMath(b)
	r, err := MultiplyVal(a, b)
	vxCheckInt(r, err, new(big.Int).Mul(A, B), "mul")
}

func VX_C06_div() {
	vxMode("int")
	a, b := vxElkInt("a"), vxElkInt("b")
	A, _ := vxMath(a)
	B, _ := vxMath(b)
	r, err := DivideVal(a, b)
	if B.Sign() == 0 {
		vxAssert(vxIsErrorOf(err, ZeroDivisionErrorClass), "div/zero-division-error")
		return
	}
	// truncated quotient (the SmallInt behaviour, and what a % b is consistent with)
	vxCheckInt(r, err, new(big.Int).Quo(A, B), "div")
}

func VX_C06_mod() {
	vxMode("int")
	a, b := vxElkInt("a"), vxElkInt("b")
	A, _ := vxMath(a)
	B, _ := vxMath(b)
	r, err := ModuloVal(a, b)
	if B.Sign() == 0 {
		vxAssert(vxIsErrorOf(err, ZeroDivisionErrorClass), "mod/zero-division-error")
		return
	}
	vxCheckInt(r, err, new(big.Int).Rem(A, B), "mod")
}

// a == (a / b) * b + a % b through the public operations only
func VX_C06_divmod_identity() {
	vxMode("int")
	a, b := vxElkInt("a"), vxElkInt("b")
	A, _ := vxMath(a)
	B, _ := vxMath(b)
	vxAssume(B.Sign() != 0)
	q, err1 := DivideVal(a, b)
	m, err2 := ModuloVal(a, b)
	vxAssert(err1.IsUndefined() && err2.IsUndefined(), "identity/no-error")
	Q, ok1 := vxMath(q)
	M, ok2 := vxMath(m)
	vxAssert(ok1 && ok2, "identity/ints")
	back := new(big.Int).Mul(Q, B)
	back.Add(back, M)
	vxAssert(back.Cmp(A) == 0, "identity/a==(a/b)*b+a%b")
}

func VX_C06_neg() {
	vxMode("int")
	a := vxElkInt("a")
	A, _ := vxMath(a)
	r := NegateVal(a)
	vxCheckInt(r, Undefined, new(big.Int).Neg(A), "neg")
}

func VX_C06_incdec() {
	vxMode("int")
	a := vxElkInt("a")
	A, _ := vxMath(a)
	vxCheckInt(IncrementVal(a), Undefined, new(big.Int).Add(A, big.NewInt(1)), "inc")
	vxCheckInt(DecrementVal(a), Undefined, new(big.Int).Sub(A, big.NewInt(1)), "dec")
}

func VX_C06_compare() {
	vxMode("int")
	a, b := vxElkInt("a"), vxElkInt("b")
	A, _ := vxMath(a)
	B, _ := vxMath(b)
	c := A.Cmp(B)
	r, err := CompareVal(a, b)
	vxAssert(err.IsUndefined(), "cmp/no-error")
	vxAssert(r.IsSmallInt() && int(r.AsSmallInt()) == c, "cmp/spaceship")
	gt, e1 := GreaterThanVal(a, b)
	ge, e2 := GreaterThanEqualVal(a, b)
	lt, e3 := LessThanVal(a, b)
	le, e4 := LessThanEqualVal(a, b)
	vxAssert(e1.IsUndefined() && e2.IsUndefined() && e3.IsUndefined() && e4.IsUndefined(), "cmp/no-errors")
	vxAssert(gt == BoolVal(c > 0), "cmp/gt")
	vxAssert(ge == BoolVal(c >= 0), "cmp/ge")
	vxAssert(lt == BoolVal(c < 0), "cmp/lt")
	vxAssert(le == BoolVal(c <= 0), "cmp/le")
	vxAssert(EqualVal(a, b) == BoolVal(c == 0), "cmp/eq")
	vxAssert(LaxEqualVal(a, b) == BoolVal(c == 0), "cmp/lax-eq")
}

func VX_C06_exp() {
	vxMode("int")
	a := vxElkInt("a")
	A, _ := vxMath(a)
	k := vxSplit("k", 4)
	r, err := ExponentiateVal(a, SmallInt(k).ToValue())
	want := big.NewInt(1)
	for i := 0; i < k; i++ {
		want.Mul(want, A)
	}
	vxCheckInt(r, err, want, "exp")
}

// operands are immutable values: no operation may change them (BigInt results that are
// written into an operand's own big.Int would)
func vxBinUnchanged(op func(a, b Value) (Value, Value), id string) {
	a, b := vxElkInt("a"), vxElkInt("b")
	A, _ := vxMath(a)
	B, _ := vxMath(b)
	op(a, b)
	A2, _ := vxMath(a)
	B2, _ := vxMath(b)
	vxAssert(A2.Cmp(A) == 0 && B2.Cmp(B) == 0, id+"/operands-unchanged")
}

func VX_C06_immutable() {
	vxMode("int")
	switch vxSplit("op", 6) {
	case 0:
		vxBinUnchanged(AddVal, "add")
	case 1:
		vxBinUnchanged(SubtractVal, "sub")
	case 2:
		vxBinUnchanged(MultiplyVal, "mul")
	case 3:
		vxBinUnchanged(DivideVal, "div")
	case 4:
		vxBinUnchanged(ModuloVal, "mod")
	case 5:
		vxBinUnchanged(CompareVal, "cmp")
	}
}

func VX_C06_parity() {
	vxMode("int")
	b := vxBig("a")
	vxAssume(!b.IsInt64())
	A := new(big.Int).Set(b)
	a := ToElkBigInt(b)
	even := a.IsEven()
	A2 := new(big.Int).Set(a.ToGoBigInt())
	vxAssert(A2.Cmp(A) == 0, "even/operand-unchanged")
	vxAssert(even == (new(big.Int).Rem(A, big.NewInt(2)).Sign() == 0), "even/exact")
	odd := ToElkBigInt(new(big.Int).Set(A)).IsOdd()
	vxAssert(odd == !even, "odd/exact")
}
