//go:build verif

package value

// C18: equality, hashing and ordering are mutually consistent (bit-vector + FP back end).

// vxNumeric: SmallInt, canonical BigInt (|v| < 2^126) or Float, one job per kind.
func vxNumeric(name string) Value {
	vxBigWidth(96)
	switch vxSplit(name+".kind", 3) {
	case 0:
		return SmallInt(vxInt64(name)).ToValue()
	case 1:
		b := vxBig(name)
		vxAssume(!b.IsInt64())
		return Ref(ToElkBigInt(b))
	default:
		return Float(vxFloat64(name)).ToValue()
	}
}

func vxIsNaN(v Value) bool {
	if v.IsFloat() {
		f := float64(v.AsFloat())
		return f != f
	}
	return false
}

func vxTrue(v Value) bool { return v == True.ToValue() }

// a == b implies equal hash
func VX_C18_eq_hash() {
	a, b := vxNumeric("a"), vxNumeric("b")
	eq := EqualVal(a, b)
	vxAssert(eq == True.ToValue() || eq == False.ToValue(), "eq/is-bool")
	ha, e1 := Hash(a)
	hb, e2 := Hash(b)
	vxAssert(e1.IsUndefined() && e2.IsUndefined(), "hash/no-error")
	if vxTrue(eq) {
		vxAssert(ha == hb, "eq-implies-equal-hash")
	}
}

// the same for every fixed-width kind (same-kind pairs) and chars, bools
func VX_C18_eq_hash_strict() {
	a := vxStrictInt("a")
	b := vxSameKind(a, "b")
	eq := EqualVal(a.v, b.v)
	ha, _ := Hash(a.v)
	hb, _ := Hash(b.v)
	vxAssert(vxTrue(eq) == (a.raw == b.raw), "strict/eq-is-bit-equality")
	if vxTrue(eq) {
		vxAssert(ha == hb, "strict/eq-implies-equal-hash")
	}
}

func VX_C18_symmetric_reflexive() {
	a, b := vxNumeric("a"), vxNumeric("b")
	vxAssert(EqualVal(a, b) == EqualVal(b, a), "eq/symmetric")
	vxAssert(LaxEqualVal(a, b) == LaxEqualVal(b, a), "laxeq/symmetric")
	vxAssert(StrictEqualVal(a, b) == StrictEqualVal(b, a), "stricteq/symmetric")
	if !vxIsNaN(a) {
		vxAssert(vxTrue(EqualVal(a, a)), "eq/reflexive")
		vxAssert(vxTrue(LaxEqualVal(a, a)), "laxeq/reflexive")
	}
}

// <, <=, >, >=, <=> and =~ agree with each other
func VX_C18_order_consistent() {
	a, b := vxNumeric("a"), vxNumeric("b")
	vxAssume(!vxIsNaN(a) && !vxIsNaN(b))
	lt, e1 := LessThanVal(a, b)
	le, e2 := LessThanEqualVal(a, b)
	gt, e3 := GreaterThanVal(a, b)
	ge, e4 := GreaterThanEqualVal(a, b)
	cmp, e5 := CompareVal(a, b)
	vxAssert(e1.IsUndefined() && e2.IsUndefined() && e3.IsUndefined() && e4.IsUndefined() && e5.IsUndefined(), "order/no-error")
	gtRev, _ := GreaterThanVal(b, a)
	geRev, _ := GreaterThanEqualVal(b, a)
	leq := vxTrue(LaxEqualVal(a, b))
	vxAssert(vxTrue(lt) == vxTrue(gtRev), "order/a<b-iff-b>a")
	vxAssert(vxTrue(le) == vxTrue(geRev), "order/a<=b-iff-b>=a")
	vxAssert(vxTrue(le) == (vxTrue(lt) || leq), "order/<=-is-<-or-=~")
	vxAssert(vxTrue(ge) == (vxTrue(gt) || leq), "order/>=-is->-or-=~")
	n := 0
	if vxTrue(lt) {
		n++
	}
	if vxTrue(gt) {
		n++
	}
	if leq {
		n++
	}
	vxAssert(n == 1, "order/exactly-one-of-<,=~,>")
	vxAssert(cmp.IsSmallInt(), "order/spaceship-is-int")
	c := cmp.AsSmallInt()
	vxAssert((c < 0) == vxTrue(lt) && (c > 0) == vxTrue(gt) && (c == 0) == leq, "order/spaceship-agrees")
}

// transitivity over triples. Quick tier: same-kind triples and the (Int, Float, Int) pattern
// for <= and =~ (the region of the recorded finding). Thorough tier: every kind triple;
// the strict-order obligations of triples with two Ints and one Float need a monotonicity
// argument about Int->Float rounding that the FP decision procedure does not finish in
// the per-query budget: they are reported as inconclusive there, never as discharged.
func vxTransitive(a, b, c Value, strict bool) {
	vxAssume(!vxIsNaN(a) && !vxIsNaN(b) && !vxIsNaN(c))
	intFloat := (a.IsFloat() || b.IsFloat() || c.IsFloat()) && !(a.IsFloat() && b.IsFloat() && c.IsFloat())
	id := ""
	if intFloat {
		id = "-across-int-and-float"
	}
	if strict {
		ab, _ := LessThanVal(a, b)
		bc, _ := LessThanVal(b, c)
		ac, _ := LessThanVal(a, c)
		if vxTrue(ab) && vxTrue(bc) {
			vxAssert(vxTrue(ac), "transitive/<"+id)
		}
	}
	ab, _ := LessThanEqualVal(a, b)
	bc, _ := LessThanEqualVal(b, c)
	ac, _ := LessThanEqualVal(a, c)
	if vxTrue(ab) && vxTrue(bc) {
		vxAssert(vxTrue(ac), "transitive/<="+id)
	}
	if vxTrue(LaxEqualVal(a, b)) && vxTrue(LaxEqualVal(b, c)) {
		vxAssert(vxTrue(LaxEqualVal(a, c)), "transitive/=~"+id)
	}
}

func VX_C18_transitive() {
	vxBigWidth(96)
	if vxTier() == 0 {
		switch vxSplit("pattern", 4) {
		case 0:
			vxTransitive(SmallInt(vxInt64("a")).ToValue(), SmallInt(vxInt64("b")).ToValue(), SmallInt(vxInt64("c")).ToValue(), true)
		case 1:
			vxTransitive(Float(vxFloat64("a")).ToValue(), Float(vxFloat64("b")).ToValue(), Float(vxFloat64("c")).ToValue(), true)
		case 2:
			vxTransitive(SmallInt(vxInt64("a")).ToValue(), Float(vxFloat64("b")).ToValue(), SmallInt(vxInt64("c")).ToValue(), false)
		case 3:
			x, y, z := vxBig("a"), vxBig("b"), vxBig("c")
			vxAssume(!x.IsInt64() && !y.IsInt64() && !z.IsInt64())
			vxTransitive(Ref(ToElkBigInt(x)), Ref(ToElkBigInt(y)), Ref(ToElkBigInt(z)), true)
		}
		return
	}
	vxTransitive(vxNumeric("a"), vxNumeric("b"), vxNumeric("c"), true)
}

// Float64 / Float32: == implies equal hash
func VX_C18_eq_hash_sized_floats() {
	if vxSplit("kind", 2) == 0 {
		a, b := Float64(vxFloat64("a")).ToValue(), Float64(vxFloat64("b")).ToValue()
		ha, _ := Hash(a)
		hb, _ := Hash(b)
		if vxTrue(EqualVal(a, b)) {
			vxAssert(ha == hb, "float64/eq-implies-equal-hash")
		}
		return
	}
	a, b := Float32(vxFloat32("a")).ToValue(), Float32(vxFloat32("b")).ToValue()
	ha, _ := Hash(a)
	hb, _ := Hash(b)
	if vxTrue(EqualVal(a, b)) {
		vxAssert(ha == hb, "float32/eq-implies-equal-hash")
	}
}
