//go:build verif

package value

// C08: the `...Ints` helpers that the Go backend and statically typed call sites use
// compute what the value-level operators compute.

func vxSameInt(a, b Value) bool {
	A, okA := vxMath(a)
	B, okB := vxMath(b)
	return okA && okB && A.Cmp(B) == 0 && a.IsSmallInt() == b.IsSmallInt()
}

func VX_C08_ints_helpers() {
	vxMode("int")
	a, b := vxElkInt("a"), vxElkInt("b")
	switch vxSplit("op", 11) {
	case 0:
		w, _ := AddVal(a, b)
		vxAssert(vxSameInt(AddInts(a, b), w), "AddInts")
	case 1:
		w, _ := SubtractVal(a, b)
		vxAssert(vxSameInt(SubtractInts(a, b), w), "SubtractInts")
	case 2:
		w, _ := MultiplyVal(a, b)
		vxAssert(vxSameInt(MultiplyInts(a, b), w), "MultiplyInts")
	case 3:
		w, e := DivideVal(a, b)
		g, e2 := DivideInts(a, b)
		vxAssert(e.IsUndefined() == e2.IsUndefined(), "DivideInts/error")
		if e.IsUndefined() {
			vxAssert(vxSameInt(g, w), "DivideInts")
		}
	case 4:
		w, e := ModuloVal(a, b)
		g, e2 := ModuloInts(a, b)
		vxAssert(e.IsUndefined() == e2.IsUndefined(), "ModuloInts/error")
		if e.IsUndefined() {
			vxAssert(vxSameInt(g, w), "ModuloInts")
		}
	case 5:
		w, _ := CompareVal(a, b)
		vxAssert(CompareInts(a, b).ToValue() == w, "CompareInts")
	case 6:
		w, _ := GreaterThanVal(a, b)
		vxAssert(BoolVal(GreaterThanInts(a, b)) == w, "GreaterThanInts")
	case 7:
		w, _ := GreaterThanEqualVal(a, b)
		vxAssert(BoolVal(GreaterThanEqualInts(a, b)) == w, "GreaterThanEqualInts")
	case 8:
		w, _ := LessThanVal(a, b)
		vxAssert(BoolVal(LessThanInts(a, b)) == w, "LessThanInts")
	case 9:
		w, _ := LessThanEqualVal(a, b)
		vxAssert(BoolVal(LessThanEqualInts(a, b)) == w, "LessThanEqualInts")
	case 10:
		vxAssert(BoolVal(EqualInts(a, b)) == EqualVal(a, b), "EqualInts")
	}
}

func VX_C08_ints_bits() {
	a, b := vxElkInt("a"), vxElkInt("b")
	switch vxSplit("op", 6) {
	case 0:
		w, _ := BitwiseAndVal(a, b)
		vxAssert(vxSameInt(BitwiseAndInts(a, b), w), "BitwiseAndInts")
	case 1:
		w, _ := BitwiseOrVal(a, b)
		vxAssert(vxSameInt(BitwiseOrInts(a, b), w), "BitwiseOrInts")
	case 2:
		w, _ := BitwiseXorVal(a, b)
		vxAssert(vxSameInt(BitwiseXorInts(a, b), w), "BitwiseXorInts")
	case 3:
		w, _ := BitwiseAndNotVal(a, b)
		vxAssert(vxSameInt(BitwiseAndNotInts(a, b), w), "BitwiseAndNotInts")
	case 4:
		w, _ := LeftBitshiftVal(a, b)
		vxAssert(vxSameInt(LeftBitshiftInts(a, b), w), "LeftBitshiftInts")
	case 5:
		w, _ := RightBitshiftVal(a, b)
		vxAssert(vxSameInt(RightBitshiftInts(a, b), w), "RightBitshiftInts")
	}
}
