//go:build verif

package value

import "math/big"

// vxElkInt builds an arbitrary well-formed Elk Int: a SmallInt, or a BigInt outside the
// int64 range (the documented canonical form). One job per representation.
func vxElkInt(name string) Value {
	if vxSplit(name+".rep", 2) == 0 {
		return SmallInt(vxInt64(name)).ToValue()
	}
	b := vxBig(name)
	vxAssume(!b.IsInt64())
	return Ref(ToElkBigInt(b))
}

// vxMath is the mathematical value of an Elk Int (ok=false when v is not an Int).
func vxMath(v Value) (*big.Int, bool) {
	if v.IsSmallInt() {
		return big.NewInt(int64(v.AsSmallInt())), true
	}
	if v.IsReference() {
		if b, ok := v.AsReference().(*BigInt); ok {
			return new(big.Int).Set(b.ToGoBigInt()), true
		}
	}
	return new(big.Int), false
}

// vxCanonical: an Int result is a SmallInt exactly when it fits in int64.
func vxCanonical(v Value) bool {
	if v.IsSmallInt() {
		return true
	}
	if v.IsReference() {
		if b, ok := v.AsReference().(*BigInt); ok {
			return !b.ToGoBigInt().IsInt64()
		}
	}
	return false
}

func vxIsErrorOf(err Value, class *Class) bool {
	if err.IsUndefined() || !err.IsReference() {
		return false
	}
	e, ok := err.AsReference().(*Object)
	if !ok {
		return false
	}
	return e.Class() == class
}

func vxCheckInt(r, err Value, want *big.Int, id string) {
	vxAssert(err.IsUndefined(), id+"/no-error")
	got, ok := vxMath(r)
	vxAssert(ok, id+"/result-is-int")
	vxAssert(vxCanonical(r), id+"/canonical")
	vxAssert(got.Cmp(want) == 0, id+"/exact")
}

// vxAnyInt builds a value of any kind in the AnyInt union (headers/anyint.elh): one job per
// kind. It also returns the mathematical value.
func vxAnyInt(name string) (Value, *big.Int) {
	switch vxSplit(name+".kind", 11) {
	case 0:
		x := vxInt64(name)
		return SmallInt(x).ToValue(), big.NewInt(x)
	case 1:
		b := vxBig(name)
		vxAssume(!b.IsInt64())
		return Ref(ToElkBigInt(b)), new(big.Int).Set(b)
	case 2:
		x := vxInt64(name)
		return Int64(x).ToValue(), big.NewInt(x)
	case 3:
		x := vxInt32(name)
		return Int32(x).ToValue(), big.NewInt(int64(x))
	case 4:
		x := vxInt16(name)
		return Int16(x).ToValue(), big.NewInt(int64(x))
	case 5:
		x := vxInt8(name)
		return Int8(x).ToValue(), big.NewInt(int64(x))
	case 6:
		x := vxUint64(name)
		return UInt64(x).ToValue(), new(big.Int).SetUint64(x)
	case 7:
		x := vxUint32(name)
		return UInt32(x).ToValue(), new(big.Int).SetUint64(uint64(x))
	case 8:
		x := vxUint16(name)
		return UInt16(x).ToValue(), new(big.Int).SetUint64(uint64(x))
	case 9:
		x := vxUint8(name)
		return UInt8(x).ToValue(), new(big.Int).SetUint64(uint64(x))
	default:
		x := vxUint64(name)
		return UInt(x).ToValue(), new(big.Int).SetUint64(x)
	}
}

// vxShiftSpec: a << s for s >= 0, floor(a / 2^-s) for s < 0 (|s| <= 200 required by the caller)
func vxShiftSpec(a *big.Int, s int64) *big.Int {
	if s >= 0 {
		return new(big.Int).Lsh(a, uint(s))
	}
	return new(big.Int).Rsh(a, uint(-s))
}
