//go:build verif

package value

import "math/big"

// vxElkInt builds an arbitrary well-formed Elk Int: a SmallInt, or a BigInt outside the
// int64 range (the documented canonical form). One job per representation.
func vxElkInt(name string) Value {
	if vxSplit(name+".rep", 2) == 0 {
		return SmallInt(vxInt64(name)).ToValue()
	}
	b := vxBig(name)
	vxAssume(!b.IsInt64())
	return Ref(ToElkBigInt(b))
}

// vxMath is the mathematical value of an Elk Int (ok=false when v is not an Int).
func vxMath(v Value) (*big.Int, bool) {
	if v.IsSmallInt() {
		return big.NewInt(int64(v.AsSmallInt())), true
	}
	if v.IsReference() {
		if b, ok := v.AsReference().(*BigInt); ok {
			return new(big.Int).Set(b.ToGoBigInt()), true
		}
	}
	return new(big.Int), false
}

// vxCanonical: an Int result is a SmallInt exactly when it fits in int64.
func vxCanonical(v Value) bool {
	if v.IsSmallInt() {
		return true
	}
	if v.IsReference() {
		if b, ok := v.AsReference().(*BigInt); ok {
			return !b.ToGoBigInt().IsInt64()
		}
	}
	return false
}

func vxIsErrorOf(err Value, class *Class) bool {
	if err.IsUndefined() || !err.IsReference() {
		return false
	}
	e, ok := err.AsReference().(*Object)
	if !ok {
		return false
	}
	return e.Class() == class
}

func vxCheckInt(r, err Value, want *big.Int, id string) {
	vxAssert(err.IsUndefined(), id+"/no-error")
	got, ok := vxMath(r)
	vxAssert(ok, id+"/result-is-int")
	vxAssert(vxCanonical(r), id+"/canonical")
	vxAssert(got.Cmp(want) == 0, id+"/exact")
}
