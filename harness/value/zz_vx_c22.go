//go:build verif

package value

// C22 (scoped): Date packing round-trips for every representable date, comparison is the
// calendar order, validation rejects exactly the out-of-range fields, and every constructor
// reachable from the public API either stores the year it was given or fails.

func vxInRange(y, m, d int) bool {
	return y >= DateMinYear && y <= DateMaxYear && m >= 1 && m <= 12 && d >= 1 && d <= 31
}

func VX_C22_pack() {
	y, m, d := vxInt("y"), vxInt("m"), vxInt("d")
	vxAssume(vxInRange(y, m, d))
	dt := MakeDate(y, m, d)
	vxAssert(dt.Year() == y && dt.Month() == m && dt.Day() == d, "pack/fields-round-trip")
	v := dt.ToValue()
	vxAssert(v.IsDate() && v.AsDate() == dt, "pack/value-round-trip")
	back := v.AsDate()
	vxAssert(back.Year() == y && back.Month() == m && back.Day() == d, "pack/value-fields")
	y2, m2, d2 := vxInt("y2"), vxInt("m2"), vxInt("d2")
	vxAssume(vxInRange(y2, m2, d2))
	e := dt
	e.SetYear(y2)
	vxAssert(e.Year() == y2 && e.Month() == m && e.Day() == d, "pack/set-year")
	e = dt
	e.SetMonth(m2)
	vxAssert(e.Year() == y && e.Month() == m2 && e.Day() == d, "pack/set-month")
	e = dt
	e.SetDay(d2)
	vxAssert(e.Year() == y && e.Month() == m && e.Day() == d2, "pack/set-day")
}

func VX_C22_order() {
	y, m, d := vxInt("y"), vxInt("m"), vxInt("d")
	y2, m2, d2 := vxInt("y2"), vxInt("m2"), vxInt("d2")
	vxAssume(vxInRange(y, m, d) && vxInRange(y2, m2, d2))
	a, b := MakeDate(y, m, d), MakeDate(y2, m2, d2)
	want := 0
	switch {
	case y != y2:
		if y < y2 {
			want = -1
		} else {
			want = 1
		}
	case m != m2:
		if m < m2 {
			want = -1
		} else {
			want = 1
		}
	case d != d2:
		if d < d2 {
			want = -1
		} else {
			want = 1
		}
	}
	vxAssert(a.Equal(b.ToValue()) == (want == 0), "order/equal")
	if d <= 28 && d2 <= 28 { // Cmp goes through time.Date: modelled for normalised days
		c := a.Cmp(b)
		vxAssert((c < 0) == (want < 0) && (c > 0) == (want > 0), "order/calendar-order")
	}
}

// the year a date is built from is the year it reports, or construction fails
func VX_C22_year_range() {
	y, m, d := vxInt("y"), vxInt("m"), vxInt("d")
	vxAssume(m >= 1 && m <= 12 && d >= 1 && d <= 28)
	vxAssume(y > -(1<<40) && y < 1<<40)
	inRange := y >= DateMinYear && y <= DateMaxYear
	dt, err := MakeValidatedDate(y, m, d)
	if inRange {
		vxAssert(err.IsUndefined() && dt.Year() == y && dt.Month() == m && dt.Day() == d, "validated/accepts-range")
	} else {
		vxAssert(vxIsErrorOf(err, DateInvalidYearErrorClass), "validated/rejects-year")
	}
	// DateTime -> Date: no error channel
	t := NewDateTime(y, m, d, 0, 0, 0, 0, 0, 0, nil)
	got := t.Date()
	if inRange {
		vxAssert(got.Year() == y && got.Month() == m && got.Day() == d, "datetime-date/in-range")
	} else {
		vxAssert(got.Year() == y, "datetime-date/year-outside-range-is-not-silently-wrapped")
	}
}

// ---------- calendar arithmetic: Date + span against the civil calendar

func vxLeap(y int) bool { return (y%4 == 0 && y%100 != 0) || y%400 == 0 }

func vxDaysIn(y, m int) int {
	switch m {
	case 4, 6, 9, 11:
		return 30
	case 2:
		if vxLeap(y) {
			return 29
		}
		return 28
	}
	return 31
}

func vxFloorDiv(a, b int) int {
	q := a / b
	if a%b != 0 && (a < 0) != (b < 0) {
		q--
	}
	return q
}

// representative years: every class of the leap rule and the transitions between them
var vxYears = [...]int{1899, 1900, 1999, 2000, 2023, 2024, 2100}

// an arbitrary valid date in one of the representative years (one job per year)
func vxCivil(name string) (int, int, int) {
	// quick: one leap year whose neighbours are not; thorough: every class of the leap rule
	y := 2024
	if vxTier() != 0 {
		y = vxYears[vxSplit(name+".year", len(vxYears))]
	}
	m, d := vxInt(name+".m"), vxInt(name+".d")
	vxAssume(m >= 1 && m <= 12 && d >= 1)
	vxAssume(d <= vxDaysIn(y, m))
	return y, m, d
}

// pin a symbolic year that is known to lie within `radius` of base to its concrete value
// (one path per value), so that the reference leap rule is evaluated on constants
func vxPinYear(v, base, radius int) int {
	for k := -radius; k <= radius; k++ {
		if v == base+k {
			return base + k
		}
	}
	vxAssume(false)
	return v
}

// date + n months (years folded in): the same day of the target month, clamped to its length
func VX_C22_add_months() {
	y, m, d := vxCivil("date")
	months := vxInt("months")
	if vxTier() == 0 {
		vxAssume(months >= -14 && months <= 14)
	} else {
		vxAssume(months >= -30 && months <= 30)
	}
	got := MakeDate(y, m, d).AddDateSpan(MakeDateSpan(0, months, 0))
	total := (m - 1) + months
	ry := vxPinYear(y+vxFloorDiv(total, 12), y, 3) // |months| <= 30: at most 3 years away
	rm := total - (ry-y)*12 + 1
	rd := d
	if dim := vxDaysIn(ry, rm); rd > dim {
		rd = dim
	}
	vxAssert(got.Year() == ry && got.Month() == rm, "add-months/lands-in-the-target-month")
	vxAssert(got.Day() == rd, "add-months/keeps-the-day-clamped-to-the-month-length")
}

// date + n days, |n| <= 31: the civil date n days later
func VX_C22_add_days() {
	y, m, d := vxCivil("date")
	days := vxInt("days")
	vxAssume(days >= -31 && days <= 31)
	got := MakeDate(y, m, d).AddDateSpan(MakeDateSpan(0, 0, days))
	ry, rm, rd := y, m, d+days
	for i := 0; i < 2; i++ {
		if rd > vxDaysIn(ry, rm) {
			rd -= vxDaysIn(ry, rm)
			rm++
			if rm == 13 {
				rm, ry = 1, ry+1
			}
		}
	}
	for i := 0; i < 2; i++ {
		if rd < 1 {
			rm--
			if rm == 0 {
				rm, ry = 12, ry-1
			}
			rd += vxDaysIn(ry, rm)
		}
	}
	vxAssert(got.Year() == ry && got.Month() == rm && got.Day() == rd, "add-days/is-the-civil-date-n-days-later")
}

