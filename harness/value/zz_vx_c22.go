//go:build verif

package value

// C22 (scoped): Date packing round-trips for every representable date, comparison is the
// calendar order, validation rejects exactly the out-of-range fields, and every constructor
// reachable from the public API either stores the year it was given or fails.

func vxInRange(y, m, d int) bool {
	return y >= DateMinYear && y <= DateMaxYear && m >= 1 && m <= 12 && d >= 1 && d <= 31
}

func VX_C22_pack() {
	y, m, d := vxInt("y"), vxInt("m"), vxInt("d")
	vxAssume(vxInRange(y, m, d))
	dt := MakeDate(y, m, d)
	vxAssert(dt.Year() == y && dt.Month() == m && dt.Day() == d, "pack/fields-round-trip")
	v := dt.ToValue()
	vxAssert(v.IsDate() && v.AsDate() == dt, "pack/value-round-trip")
	back := v.AsDate()
	vxAssert(back.Year() == y && back.Month() == m && back.Day() == d, "pack/value-fields")
	y2, m2, d2 := vxInt("y2"), vxInt("m2"), vxInt("d2")
	vxAssume(vxInRange(y2, m2, d2))
	e := dt
	e.SetYear(y2)
	vxAssert(e.Year() == y2 && e.Month() == m && e.Day() == d, "pack/set-year")
	e = dt
	e.SetMonth(m2)
	vxAssert(e.Year() == y && e.Month() == m2 && e.Day() == d, "pack/set-month")
	e = dt
	e.SetDay(d2)
	vxAssert(e.Year() == y && e.Month() == m && e.Day() == d2, "pack/set-day")
}

func VX_C22_order() {
	y, m, d := vxInt("y"), vxInt("m"), vxInt("d")
	y2, m2, d2 := vxInt("y2"), vxInt("m2"), vxInt("d2")
	vxAssume(vxInRange(y, m, d) && vxInRange(y2, m2, d2))
	a, b := MakeDate(y, m, d), MakeDate(y2, m2, d2)
	want := 0
	switch {
	case y != y2:
		if y < y2 {
			want = -1
		} else {
			want = 1
		}
	case m != m2:
		if m < m2 {
			want = -1
		} else {
			want = 1
		}
	case d != d2:
		if d < d2 {
			want = -1
		} else {
			want = 1
		}
	}
	vxAssert(a.Equal(b.ToValue()) == (want == 0), "order/equal")
	if d <= 28 && d2 <= 28 { // Cmp goes through time.Date: modelled for normalised days
		c := a.Cmp(b)
		vxAssert((c < 0) == (want < 0) && (c > 0) == (want > 0), "order/calendar-order")
	}
}

// the year a date is built from is the year it reports, or construction fails
func VX_C22_year_range() {
	y, m, d := vxInt("y"), vxInt("m"), vxInt("d")
	vxAssume(m >= 1 && m <= 12 && d >= 1 && d <= 28)
	vxAssume(y > -(1<<40) && y < 1<<40)
	inRange := y >= DateMinYear && y <= DateMaxYear
	dt, err := MakeValidatedDate(y, m, d)
	if inRange {
		vxAssert(err.IsUndefined() && dt.Year() == y && dt.Month() == m && dt.Day() == d, "validated/accepts-range")
	} else {
		vxAssert(vxIsErrorOf(err, DateInvalidYearErrorClass), "validated/rejects-year")
	}
	// DateTime -> Date: no error channel
	t := NewDateTime(y, m, d, 0, 0, 0, 0, 0, 0, nil)
	got := t.Date()
	if inRange {
		vxAssert(got.Year() == y && got.Month() == m && got.Day() == d, "datetime-date/in-range")
	} else {
		vxAssert(got.Year() == y, "datetime-date/year-outside-range-is-not-silently-wrapped")
	}
}
