//go:build verif

package value

// C20 (graphemes): grapheme_count, grapheme_at (negative indices included) and the grapheme
// iterator agree with each other on every string assembled from <= 3 pieces of a small alphabet
// that drives the segmentation rules: 'a', CR, LF, a combining mark, a two-byte letter.
// The segmentation library (rivo/uniseg) runs from SSA on the concrete pieces; the choice of
// pieces and the index are the explored variables.

var vxGraphemePieces = [...]string{"a", "\r", "\n", "́", "é"}

func VX_C20_graphemes() {
	vxSplitIndex()
	n := vxSplit("pieces", 4)
	s := ""
	for i := 0; i < n; i++ {
		s += vxGraphemePieces[vxChoose("piece"+string(rune('0'+i)), len(vxGraphemePieces))]
	}
	str := String(s)
	// the iterator's elements are the reference decomposition
	it := &StringGraphemeIterator{String: str, Rest: s, State: -1}
	var clusters []string
	for k := 0; k < 8; k++ {
		v, err := it.NextValue()
		if !err.IsUndefined() {
			break
		}
		clusters = append(clusters, string(v.AsReference().(String)))
	}
	joined := ""
	for _, c := range clusters {
		joined += c
	}
	vxAssert(joined == s, "graphemes/iterator-elements-concatenate-to-the-string")
	vxAssert(str.GraphemeCount() == len(clusters), "graphemes/count-equals-the-number-of-iterator-elements")
	idx := vxInt("idx")
	vxAssume(idx >= -5 && idx <= 5)
	got, err := str.GraphemeAtInt(idx)
	k := idx
	if k < 0 {
		k += len(clusters)
	}
	if k >= 0 && k < len(clusters) {
		vxAssert(err.IsUndefined() && string(got) == clusters[k], "graphemes/grapheme-at-is-the-corresponding-iterator-element")
	} else {
		vxAssert(vxIsErrorOf(err, IndexErrorClass), "graphemes/out-of-range-index-is-an-IndexError")
	}
}
