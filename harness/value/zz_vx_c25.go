//go:build verif

package value

import (
	"context"
	"time"
)

type vxTime = time.Time

// C25: channels and sync primitives keep their contracts - misuse ends in an Elk error, never in
// a Go panic or fatal error; values are delivered once and in order under every schedule.

// ---------- misuse sequences on one primitive (symbolic operation codes)

const vxSeqLen = 3

func VX_C25_mutex_sequence() {
	m := NewMutex()
	held := false
	for i := 0; i < vxSeqLen; i++ {
		switch vxChoose("op"+string(rune('0'+i)), 2) {
		case 0:
			if held {
				return // a second Lock by the same thread blocks forever: not a misuse this property speaks about
			}
			m.Lock()
			held = true
		case 1:
			err := m.Unlock()
			if held {
				vxAssert(err.IsUndefined(), "mutex/unlock-of-a-held-mutex-succeeds")
				held = false
			} else {
				vxAssert(vxIsErrorOf(err, MutexUnlockedErrorClass), "mutex/unlock-of-an-unlocked-mutex-raises-UnlockedError")
			}
		}
	}
}

func VX_C25_rwmutex_sequence() {
	m := NewRWMutex()
	writer, readers := false, 0
	for i := 0; i < vxSeqLen; i++ {
		switch vxChoose("op"+string(rune('0'+i)), 4) {
		case 0:
			if writer || readers > 0 {
				return
			}
			m.Lock()
			writer = true
		case 1:
			if writer {
				return
			}
			m.ReadLock()
			readers++
		case 2:
			err := m.Unlock()
			if writer {
				vxAssert(err.IsUndefined(), "rwmutex/unlock-of-a-write-locked-mutex-succeeds")
				writer = false
			} else {
				vxAssert(vxIsErrorOf(err, RWMutexUnlockedErrorClass), "rwmutex/unlock-when-not-write-locked-raises-UnlockedError")
			}
		case 3:
			err := m.ReadUnlock()
			if readers > 0 {
				vxAssert(err.IsUndefined(), "rwmutex/read-unlock-of-a-read-locked-mutex-succeeds")
				readers--
			} else {
				vxAssert(vxIsErrorOf(err, RWMutexUnlockedErrorClass), "rwmutex/read-unlock-when-not-read-locked-raises-UnlockedError")
			}
		}
	}
}

// the counter never goes negative without the program learning about it (no Go panic)
func VX_C25_waitgroup_sequence() {
	w := &WaitGroup{}
	count := 0
	for i := 0; i < vxSeqLen; i++ {
		switch vxChoose("op"+string(rune('0'+i)), 4) {
		case 0:
			err := w.Start()
			vxAssert(err.IsUndefined(), "waitgroup/start-succeeds")
			count++
		case 1:
			err := w.End()
			if count == 0 {
				vxAssert(!err.IsUndefined(), "waitgroup/end-below-zero-is-an-elk-error")
			} else {
				vxAssert(err.IsUndefined(), "waitgroup/end-succeeds")
				count--
			}
		case 2:
			n := vxChoose("n"+string(rune('0'+i)), 3)
			err := w.Remove(n)
			if n > count {
				vxAssert(!err.IsUndefined(), "waitgroup/remove-below-zero-is-an-elk-error")
			} else {
				vxAssert(err.IsUndefined(), "waitgroup/remove-succeeds")
				count -= n
			}
		case 3:
			if count != 0 {
				return // Wait with a positive counter and no other thread blocks forever
			}
			w.Wait()
		}
		vxAssert(count >= 0, "waitgroup/counter-never-negative-without-an-error")
	}
}

// a channel used from one thread (only operations that cannot block): FIFO, and the documented
// closed-channel errors
func VX_C25_channel_sequence() {
	capacity := 1 + vxSplit("cap", 2)
	ch := NewChannelOfValue(capacity)
	var model []int64
	closed := false
	for i := 0; i < vxSeqLen+1; i++ {
		switch vxChoose("op"+string(rune('0'+i)), 3) {
		case 0:
			if len(model) == capacity && !closed {
				return // would block
			}
			v := vxInt64("v" + string(rune('0'+i)))
			err := ch.Push(SmallInt(v).ToValue())
			if closed {
				vxAssert(err == ChannelClosedPushError.ToValue(), "channel/push-on-a-closed-channel-raises-ClosedError")
			} else {
				vxAssert(err.IsUndefined(), "channel/push-succeeds")
				model = append(model, v)
			}
		case 1:
			if len(model) == 0 && !closed {
				return // would block
			}
			got, err := ch.Pop()
			if len(model) > 0 {
				vxAssert(err.IsUndefined() && got.IsSmallInt() && int64(got.AsSmallInt()) == model[0], "channel/pop-returns-the-oldest-value")
				model = model[1:]
			} else {
				vxAssert(err == ChannelClosedPopError.ToValue(), "channel/pop-on-a-drained-closed-channel-raises-ClosedError")
			}
		case 2:
			err := ch.Close()
			if closed {
				vxAssert(err == ChannelClosedCloseError.ToValue(), "channel/closing-twice-raises-ClosedError")
			} else {
				vxAssert(err.IsUndefined(), "channel/close-succeeds")
				closed = true
			}
		}
		vxAssert(ch.Length() == len(model) && ch.Capacity() == capacity, "channel/length-and-capacity")
	}
}

// ---------- schedules

// one producer, one consumer, capacity 0..2: every value exactly once, in push order
func VX_C25_producer_consumer() {
	ch := NewChannelOfValue(vxSplit("cap", 3))
	a, b := vxInt64("a"), vxInt64("b")
	var got []int64
	var popErr Value
	vxGo(func() {
		ch.Push(SmallInt(a).ToValue())
		ch.Push(SmallInt(b).ToValue())
		ch.Close()
	})
	vxGo(func() {
		for i := 0; i < 3; i++ {
			v, err := ch.Pop()
			if !err.IsUndefined() {
				popErr = err
				return
			}
			got = append(got, int64(v.AsSmallInt()))
		}
	})
	vxJoin()
	vxAssert(len(got) == 2 && got[0] == a && got[1] == b, "producer-consumer/every-value-once-in-order")
	vxAssert(popErr == ChannelClosedPopError.ToValue(), "producer-consumer/pop-after-drain-raises-ClosedError")
}

// closing a channel while another thread pushes: the push either succeeds or raises the closed error
func VX_C25_push_vs_close() {
	ch := NewChannelOfValue(1 + vxSplit("cap", 2))
	var pushErr, closeErr Value
	vxGo(func() { pushErr = ch.Push(SmallInt(1).ToValue()) })
	vxGo(func() { closeErr = ch.Close() })
	vxJoin()
	vxAssert(closeErr.IsUndefined(), "push-vs-close/close-succeeds")
	vxAssert(pushErr.IsUndefined() || pushErr == ChannelClosedPushError.ToValue(), "push-vs-close/push-succeeds-or-raises-ClosedError")
	if pushErr.IsUndefined() {
		v, err := ch.Pop()
		vxAssert(err.IsUndefined() && v.IsSmallInt() && v.AsSmallInt() == 1, "push-vs-close/a-pushed-value-survives-the-close")
	}
}

// a mutex unlocked by a thread while another thread holds or does not hold it
func VX_C25_unlock_vs_lock() {
	m := NewMutex()
	var e1 Value
	vxGo(func() {
		m.Lock()
		e1 = m.Unlock()
	})
	var e2 Value
	vxGo(func() { e2 = m.Unlock() })
	vxJoin()
	vxAssert(e1.IsUndefined() || vxIsErrorOf(e1, MutexUnlockedErrorClass), "unlock-vs-lock/owner-unlock-is-an-elk-result")
	vxAssert(e2.IsUndefined() || vxIsErrorOf(e2, MutexUnlockedErrorClass), "unlock-vs-lock/foreign-unlock-is-an-elk-result")
}

// ---------- context aware operations (also the kernel of C33)

type vxCtx struct{ done chan struct{} }

func (c *vxCtx) Done() <-chan struct{}                   { return c.done }
func (c *vxCtx) Err() error                              { return nil }
func (c *vxCtx) Deadline() (d vxTime, ok bool)           { return }
func (c *vxCtx) Value(key any) any                       { return nil }

var _ context.Context = (*vxCtx)(nil)

// a pop that can never be served returns ExecutionAborted once the context is cancelled,
// and a value pushed before the cancellation is never lost
func VX_C25_pop_ctx() {
	ch := NewChannelOfValue(vxSplit("cap", 2))
	ctx := &vxCtx{done: make(chan struct{})}
	withProducer := vxSplit("producer", 2) == 1
	var got, err Value
	vxGo(func() { got, err = ch.PopCtx(ctx) })
	vxGo(func() { close(ctx.done) })
	var pushErr Value
	if withProducer {
		vxGo(func() { pushErr = ch.PushCtx(ctx, SmallInt(5).ToValue()) })
	}
	vxJoin()
	if err.IsUndefined() {
		vxAssert(withProducer && got.IsSmallInt() && got.AsSmallInt() == 5, "pop-ctx/a-returned-value-was-pushed")
	} else {
		vxAssert(err == ExecutionAbortedError.ToValue(), "pop-ctx/an-unserved-pop-ends-with-ExecutionAborted")
	}
	if withProducer && pushErr.IsUndefined() && !err.IsUndefined() {
		// pushed but not popped by the consumer: still in the buffer
		vxAssert(ch.Length() == 1, "pop-ctx/a-completed-push-is-not-lost")
	}
}

// two consumers drain a closed channel that holds one value: exactly one of them gets it, the
// other one the closed-channel error (context-aware pops and iterator steps)
func VX_C25_two_consumers_closed() {
	ch := NewChannelOfValue(1 + vxSplit("cap", 2))
	ctx := &vxCtx{done: make(chan struct{})}
	v := vxInt64("v")
	ch.Push(SmallInt(v).ToValue())
	ch.Close()
	useNext := vxSplit("next", 2) == 1
	var got [2]Value
	var errs [2]Value
	pop := func(i int) {
		if useNext {
			got[i], errs[i] = ch.NextValueCtx(ctx)
		} else {
			got[i], errs[i] = ch.PopCtx(ctx)
		}
	}
	vxGo(func() { pop(0) })
	vxGo(func() { pop(1) })
	vxJoin()
	delivered := 0
	for i := 0; i < 2; i++ {
		if errs[i].IsUndefined() {
			delivered++
			vxAssert(got[i].IsSmallInt() && int64(got[i].AsSmallInt()) == v, "two-consumers/only-pushed-values-are-delivered")
		} else if useNext {
			vxAssert(errs[i].IsInlineSymbol(), "two-consumers/the-loser-sees-the-end-of-the-channel")
		} else {
			vxAssert(errs[i] == ChannelClosedPopError.ToValue(), "two-consumers/the-loser-gets-the-closed-channel-error")
		}
	}
	vxAssert(delivered == 1, "two-consumers/the-value-is-delivered-exactly-once")
}
