//go:build verif

package value

import "math/big"

// C18: `=~` between a fixed-width integer and any integer kind is equality of the mathematical
// values (so it is symmetric and transitive across kinds): every left kind x every right kind of
// the AnyInt union, arbitrary values.
func VX_C18_lax_equal_fixed_width() {
	r, R := vxAnyInt("r")
	var got bool
	var L *big.Int
	switch vxSplit("l.kind", 8) {
	case 0:
		x := vxInt8("l")
		got, L = StrictSignedIntLaxEqual(Int8(x), r), big.NewInt(int64(x))
	case 1:
		x := vxInt16("l")
		got, L = StrictSignedIntLaxEqual(Int16(x), r), big.NewInt(int64(x))
	case 2:
		x := vxInt32("l")
		got, L = StrictSignedIntLaxEqual(Int32(x), r), big.NewInt(int64(x))
	case 3:
		x := vxInt64("l")
		got, L = StrictSignedIntLaxEqual(Int64(x), r), big.NewInt(x)
	case 4:
		x := vxUint8("l")
		got, L = StrictUnsignedIntLaxEqual(UInt8(x), r), new(big.Int).SetUint64(uint64(x))
	case 5:
		x := vxUint16("l")
		got, L = StrictUnsignedIntLaxEqual(UInt16(x), r), new(big.Int).SetUint64(uint64(x))
	case 6:
		x := vxUint32("l")
		got, L = StrictUnsignedIntLaxEqual(UInt32(x), r), new(big.Int).SetUint64(uint64(x))
	default:
		x := vxUint64("l")
		got, L = StrictUnsignedIntLaxEqual(UInt64(x), r), new(big.Int).SetUint64(x)
	}
	vxAssert(got == (L.Cmp(R) == 0), "lax-equal-fixed/agrees-with-the-mathematical-values")
}
