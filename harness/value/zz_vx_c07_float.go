//go:build verif

package value

import "math"

// C07: Float, Float64 and Float32 operations give the IEEE-754 result of their width.

func vxSameF64(a, b float64) bool {
	return math.Float64bits(a) == math.Float64bits(b) || (a != a && b != b)
}

func vxSameF32(a, b float32) bool {
	return math.Float32bits(a) == math.Float32bits(b) || (a != a && b != b)
}

func vxFloatOp(op int, l, r Value) (Value, Value) {
	switch op {
	case 0:
		return AddVal(l, r)
	case 1:
		return SubtractVal(l, r)
	case 2:
		return MultiplyVal(l, r)
	default:
		return DivideVal(l, r)
	}
}

func vxF64(op int, a, b float64) float64 {
	switch op {
	case 0:
		return a + b
	case 1:
		return a - b
	case 2:
		return a * b
	default:
		return a / b
	}
}

func vxF32(op int, a, b float32) float32 {
	switch op {
	case 0:
		return a + b
	case 1:
		return a - b
	case 2:
		return a * b
	default:
		return a / b
	}
}

// Float op {Float, SmallInt, BigInt}
func VX_C07_float() {
	a := vxFloat64("a")
	op := vxSplit("op", 4)
	var r Value
	var b float64
	switch vxSplit("right", 3) {
	case 0:
		b = vxFloat64("b")
		r = Float(b).ToValue()
	case 1:
		i := vxInt64("b")
		b = float64(i)
		r = SmallInt(i).ToValue()
	default:
		bi := vxBig("b")
		vxAssume(!bi.IsInt64())
		b, _ = bi.Float64()
		r = Ref(ToElkBigInt(bi))
	}
	got, err := vxFloatOp(op, Float(a).ToValue(), r)
	vxAssert(err.IsUndefined(), "float/no-error")
	vxAssert(got.IsFloat(), "float/result-is-float")
	vxAssert(vxSameF64(float64(got.AsFloat()), vxF64(op, a, b)), "float/ieee754-binary64")
}

func VX_C07_float64() {
	a, b := vxFloat64("a"), vxFloat64("b")
	op := vxSplit("op", 4)
	got, err := vxFloatOp(op, Float64(a).ToValue(), Float64(b).ToValue())
	vxAssert(err.IsUndefined(), "float64/no-error")
	vxAssert(got.IsInlineFloat64(), "float64/result-type")
	vxAssert(vxSameF64(float64(got.AsFloat64()), vxF64(op, a, b)), "float64/ieee754-binary64")
}

func VX_C07_float32() {
	a, b := vxFloat32("a"), vxFloat32("b")
	op := vxSplit("op", 4)
	got, err := vxFloatOp(op, Float32(a).ToValue(), Float32(b).ToValue())
	vxAssert(err.IsUndefined(), "float32/no-error")
	vxAssert(got.IsFloat32(), "float32/result-type")
	vxAssert(vxSameF32(float32(got.AsFloat32()), vxF32(op, a, b)), "float32/ieee754-binary32")
}

// comparisons are the IEEE predicates (false on NaN), negation flips the sign bit
func VX_C07_float_cmp() {
	a, b := vxFloat64("a"), vxFloat64("b")
	l, r := Float(a).ToValue(), Float(b).ToValue()
	lt, e1 := LessThanVal(l, r)
	le, e2 := LessThanEqualVal(l, r)
	gt, e3 := GreaterThanVal(l, r)
	ge, e4 := GreaterThanEqualVal(l, r)
	vxAssert(e1.IsUndefined() && e2.IsUndefined() && e3.IsUndefined() && e4.IsUndefined(), "fcmp/no-error")
	vxAssert(lt == BoolVal(a < b), "fcmp/lt")
	vxAssert(le == BoolVal(a <= b), "fcmp/le")
	vxAssert(gt == BoolVal(a > b), "fcmp/gt")
	vxAssert(ge == BoolVal(a >= b), "fcmp/ge")
	vxAssert(EqualVal(l, r) == BoolVal(a == b), "fcmp/eq")
	n := NegateVal(l)
	vxAssert(n.IsFloat() && math.Float64bits(float64(n.AsFloat())) == math.Float64bits(a)^(1<<63), "fneg/sign-bit")
}
