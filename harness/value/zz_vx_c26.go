//go:build verif

package value

// C26: symbol interning is a bijection, also under concurrency.

// a fresh table preloaded (sequentially) with k arbitrary distinct names of <= 2 bytes
func vxSymTable(k int) (*SymbolTableStruct, []string) {
	vxSplitIndex()
	t := &SymbolTableStruct{nameTable: map[string]Symbol{}}
	var names []string
	for i := 0; i < k; i++ {
		n := vxName("pre" + string(rune('0'+i)))
		for _, o := range names {
			vxAssume(o != n)
		}
		names = append(names, n)
		t.Add(n)
	}
	return t, names
}

// an arbitrary name of 0..2 bytes (one job per length)
func vxName(name string) string {
	return vxString(name, vxSplit(name+".len", 3))
}

// the bijection invariant, evaluated on the table (single-threaded use only)
func vxBijection(t *SymbolTableStruct) bool {
	if len(t.nameTable) != len(t.idTable) {
		return false
	}
	for i, n := range t.idTable {
		id, ok := t.nameTable[n]
		if !ok || int(id) != i {
			return false
		}
	}
	return true
}

// sequential step from any table of <= 2 entries
func VX_C26_add_step() {
	k := vxSplit("entries", 3)
	t, names := vxSymTable(k)
	vxAssume(vxBijection(t))
	n := vxName("n")
	existing := -1
	for i, o := range names {
		if o == n {
			existing = i
		}
	}
	s := t.Add(n)
	if existing >= 0 {
		vxAssert(int(s) == existing, "add/existing-name-keeps-its-symbol")
		vxAssert(len(t.idTable) == k, "add/no-new-entry-for-an-existing-name")
	} else {
		vxAssert(int(s) == k, "add/new-name-gets-a-fresh-symbol")
	}
	vxAssert(vxBijection(t), "add/bijection-preserved")
	back, ok := t.GetName(s)
	vxAssert(ok && back == n, "add/name-of-the-symbol-is-the-name")
	g, ok2 := t.Get(n)
	vxAssert(ok2 && g == s, "add/lookup-finds-the-symbol")
	vxAssert(t.Add(n) == s, "add/idempotent")
}

// two threads intern arbitrary names (equal or not) into a table of <= 1 entries, every
// interleaving of their visible operations
func VX_C26_two_adds() {
	k := vxSplit("entries", 2)
	t, _ := vxSymTable(k)
	n1, n2 := vxName("n1"), vxName("n2")
	var s1, s2 Symbol
	vxGo(func() { s1 = t.Add(n1) })
	vxGo(func() { s2 = t.Add(n2) })
	vxJoin()
	vxAssert((n1 == n2) == (s1 == s2), "two-adds/same-name-same-symbol-different-names-different-symbols")
	b1, ok1 := t.GetName(s1)
	b2, ok2 := t.GetName(s2)
	vxAssert(ok1 && b1 == n1 && ok2 && b2 == n2, "two-adds/every-symbol-names-its-string")
	vxAssert(vxBijection(t), "two-adds/bijection-after-the-race")
}

// an interning thread and a reading thread: a reader sees either nothing or the final answer
func VX_C26_add_vs_get() {
	k := vxSplit("entries", 2)
	t, _ := vxSymTable(k)
	n := vxName("n")
	var s, g Symbol
	var found bool
	var back string
	var backOk bool
	vxGo(func() { s = t.Add(n) })
	vxGo(func() {
		g, found = t.Get(n)
		if found {
			back, backOk = t.GetName(g)
		}
	})
	vxJoin()
	if found {
		vxAssert(g == s, "add-vs-get/a-reader-never-sees-another-symbol-for-the-name")
		vxAssert(backOk && back == n, "add-vs-get/a-symbol-that-was-handed-out-has-its-name")
	}
	vxAssert(vxBijection(t), "add-vs-get/bijection")
}

// three interning threads (thorough tier)
func VX_C26_three_adds() {
	t, _ := vxSymTable(0)
	var n [3]string
	var s [3]Symbol
	for i := 0; i < 3; i++ {
		n[i] = vxString("n"+string(rune('0'+i)), 1)
	}
	vxGo(func() { s[0] = t.Add(n[0]) })
	vxGo(func() { s[1] = t.Add(n[1]) })
	vxGo(func() { s[2] = t.Add(n[2]) })
	vxJoin()
	for i := 0; i < 3; i++ {
		for j := i + 1; j < 3; j++ {
			vxAssert((n[i] == n[j]) == (s[i] == s[j]), "three-adds/bijection-on-the-results")
		}
	}
	vxAssert(vxBijection(t), "three-adds/bijection-after-the-race")
}

// lock discipline: while two threads use the table, every access to its maps and slices happens
// with the table's RWMutex held in a sufficient mode (all public operations, arbitrary arguments)
func VX_C26_discipline() {
	t, _ := vxSymTable(1)
	vxGuardedBy(t, &t.mutex)
	n := vxString("n", 1)
	id := Symbol(vxInt("id"))
	op := vxSplit("op", 5)
	vxGo(func() { t.Add(n) })
	vxGo(func() {
		switch op {
		case 0:
			t.Add(n)
		case 1:
			t.Get(n)
		case 2:
			t.GetName(id)
		case 3:
			t.Exists(n)
		default:
			t.ExistsId(id)
		}
	})
	vxJoin()
	vxAssert(vxBijection(t), "discipline/bijection")
}
