//go:build verif

package value

import "time"

// C22 (formatting round trip): for every representable Date, parsing `to_string` / `strftime`
// output with the matching format gives the date back. The formatted text is computed from the
// real Date.String / Date.Format (fmt verbs modelled exactly: vxExactFormat) and parsed by the
// real ParseDate (timescanner + digit parsing executed on the symbolic bytes).

// year classes: 4-digit years, negative years, years of more than 4 digits
func vxFormatYear(name string) int {
	y := vxInt(name)
	switch vxSplit("years", 3) {
	case 0:
		vxAssume(y >= 0 && y <= 9999)
	case 1:
		vxAssume(y >= DateMinYear && y < 0)
	default:
		vxAssume(y > 9999 && y <= DateMaxYear)
	}
	return y
}

// month and day: any month, day 1..28 (ParseDate ends with Date.Normalize, i.e. time.Date; days
// that depend on the month length and the leap rule need a concrete year in the time model and are
// covered by the calendar harnesses, not here)
func vxFormatMonthDay() (int, int) {
	m, d := vxInt("m"), vxInt("d")
	vxAssume(m >= 1 && m <= 12 && d >= 1 && d <= 28)
	return m, d
}

func VX_C22_date_string_roundtrip() {
	vxExactFormat()
	y := vxFormatYear("y")
	m, d := vxFormatMonthDay()
	dt := MakeDate(y, m, d)
	s := string(dt.ToString())
	back, err := ParseDate(DefaultDateFormat, s)
	vxAssert(err.IsUndefined(), "date-roundtrip/to_string-output-parses")
	if err.IsUndefined() {
		vxAssert(back == dt, "date-roundtrip/to_string-output-parses-to-the-same-date")
	}
	f, ferr := dt.Format(DefaultDateFormat)
	vxAssert(ferr.IsUndefined() && f == s, "date-roundtrip/strftime-with-the-default-format-is-to_string")
}

// strftime %z / %:z of a DateTime in a fixed zone: sign, two digits of hours, two digits of
// minutes of the absolute offset, for every offset strictly between -24h and +24h (seconds).
// (Integer back end: the offset goes through nanoseconds, i.e. multiplication and division by
// 10^9-sized constants; only DateTime.Format's own arithmetic is executed, the zone of the time
// value is a time.FixedZone whose offset is the symbolic input.)
func VX_C22_zone_offset_format() {
	vxMode("int")
	vxExactFormat()
	off := vxInt("off")
	vxAssume(off > -86400 && off < 86400)
	dt := DateTime{native: time.Time{}.In(time.FixedZone("X", off))}
	sign := byte('+')
	a := off
	if off < 0 {
		sign = '-'
		a = -off
	}
	// one path per hour of the offset (keeps the solver's integer division linear)
	hh := vxChoose("hours", 24)
	vxAssume(a >= hh*3600 && a < (hh+1)*3600)
	mt := vxChoose("minute-tens", 6)
	vxAssume(a-hh*3600 >= mt*600 && a-hh*3600 < (mt+1)*600)
	mm := mt*10 + (a-hh*3600-mt*600)/60
	colon := vxSplit("colon", 2) == 1
	format, want := "%z", []byte{sign, byte('0' + hh/10), byte('0' + hh%10), byte('0' + mm/10), byte('0' + mm%10)}
	if colon {
		format, want = "%:z", []byte{sign, byte('0' + hh/10), byte('0' + hh%10), ':', byte('0' + mm/10), byte('0' + mm%10)}
	}
	got, err := dt.Format(format)
	vxAssert(err.IsUndefined(), "zone-format/no-error")
	vxAssert(got == string(want), "zone-format/sign-hours-minutes-of-the-absolute-offset")
}
