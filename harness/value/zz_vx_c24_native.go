//go:build verif

package value

// C24, element-type-specialised lists (NativeArrayList[T], instantiated at Int64):
// the same sequence model as ArrayListOfValue, plus freshness of the result of +.

func vxNList(name string, n, extra int) (*NativeArrayList[Int64], []int64) {
	l := make(NativeArrayList[Int64], 0, n+extra)
	model := make([]int64, n)
	for i := 0; i < n; i++ {
		x := vxInt64(name + string(rune('0'+i)))
		model[i] = x
		l = append(l, Int64(x))
	}
	return &l, model
}

func vxNListIs(l *NativeArrayList[Int64], model []int64) bool {
	if l.Length() != len(model) {
		return false
	}
	for i, x := range model {
		if int64((*l)[i]) != x {
			return false
		}
	}
	return true
}

func VX_C24_native_get_set() {
	n := vxSplit("len", 4)
	l, model := vxNList("e", n, vxSplit("extra", 2))
	i := vxInt("i")
	k, ok := vxNorm(i, n)
	got, err := l.Get(i)
	if ok {
		vxAssert(err.IsUndefined() && int64(got) == model[k], "native-get/element")
	} else {
		vxAssert(vxIsErrorOf(err, IndexErrorClass), "native-get/out-of-range-error")
	}
	v := vxInt64("v")
	j := vxInt("j")
	kj, okj := vxNorm(j, n)
	err = l.SubscriptSetInt(j, Int64(v).ToValue())
	if okj {
		vxAssert(err.IsUndefined(), "native-set/no-error")
		model[kj] = v
	} else {
		vxAssert(vxIsErrorOf(err, IndexErrorClass), "native-set/out-of-range-error")
	}
	vxAssert(vxNListIs(l, model), "native-set/only-the-addressed-element-changes")
	// an element of another type is rejected and changes nothing
	err = l.SubscriptSetInt(0, SmallInt(v).ToValue())
	vxAssert(!err.IsUndefined(), "native-set/wrong-element-type-is-an-error")
	vxAssert(vxNListIs(l, model), "native-set/rejected-store-changes-nothing")
}

func VX_C24_native_remove() {
	n := vxSplit("len", 4)
	l, model := vxNList("e", n, vxSplit("extra", 2))
	i := vxInt("i")
	k, ok := vxNorm(i, n)
	err := l.RemoveAtErr(i)
	if ok {
		vxAssert(err.IsUndefined(), "native-remove/no-error")
		want := append(append([]int64{}, model[:k]...), model[k+1:]...)
		vxAssert(vxNListIs(l, want), "native-remove/sequence")
	} else {
		vxAssert(vxIsErrorOf(err, IndexErrorClass), "native-remove/out-of-range-error")
		vxAssert(vxNListIs(l, model), "native-remove/unchanged-on-error")
	}
}

// a + b: a fresh list holding a's then b's elements; neither operand changes, and later
// mutations of an operand or of the result do not show through the other
func VX_C24_native_concat() {
	n := vxSplit("lenA", 3)
	m := vxSplit("lenB", 3)
	a, ma := vxNList("a", n, vxSplit("extraA", 3))
	b, mb := vxNList("b", m, 0)
	rv, err := a.ConcatVal(Ref(b))
	vxAssert(err.IsUndefined() && rv.IsReference(), "native-concat/no-error")
	r, ok := rv.AsReference().(*NativeArrayList[Int64])
	vxAssert(ok, "native-concat/result-type")
	if !ok {
		return
	}
	want := append(append([]int64{}, ma...), mb...)
	vxAssert(vxNListIs(r, want), "native-concat/sequence")
	vxAssert(vxNListIs(a, ma) && vxNListIs(b, mb), "native-concat/operands-unchanged")
	// freshness
	x := vxInt64("x")
	a.Append(Int64(x))
	vxAssert(vxNListIs(r, want), "native-concat/result-independent-of-later-append-to-operand")
	if n > 0 {
		a.SetAt(0, Int64(x))
		vxAssert(vxNListIs(r, want), "native-concat/result-independent-of-later-store-to-operand")
		ma[0] = x
	}
	if len(want) > 0 {
		r.SetAt(0, Int64(x+1))
		vxAssert(vxNListIs(a, append(append([]int64{}, ma...), x)), "native-concat/operand-independent-of-store-to-result")
	}
}

// list + tuple gives a generic list with the elements of both
func VX_C24_native_concat_tuple() {
	n := vxSplit("lenA", 3)
	m := vxSplit("lenB", 3)
	a, ma := vxNList("a", n, 0)
	var elems []Value
	var mb []int64
	for i := 0; i < m; i++ {
		x := vxInt64("t" + string(rune('0'+i)))
		mb = append(mb, x)
		elems = append(elems, SmallInt(x).ToValue())
	}
	t := NewArrayTupleOfValueWithElements(0, elems...)
	rv, err := a.ConcatVal(Ref(t))
	vxAssert(err.IsUndefined() && rv.IsReference(), "native-concat-tuple/no-error")
	r, ok := rv.AsReference().(*ArrayListOfValue)
	vxAssert(ok, "native-concat-tuple/result-type")
	if !ok {
		return
	}
	vxAssert(r.Length() == n+m, "native-concat-tuple/length")
	if r.Length() != n+m {
		return
	}
	for i := 0; i < n; i++ {
		v := (*r)[i]
		vxAssert(v.ValueFlag() == INT64_FLAG && int64(v.AsInt64()) == ma[i], "native-concat-tuple/list-elements-first")
	}
	for i := 0; i < m; i++ {
		v := (*r)[n+i]
		vxAssert(v.IsSmallInt() && int64(v.AsSmallInt()) == mb[i], "native-concat-tuple/tuple-elements-after")
	}
}

func VX_C24_native_repeat() {
	n := vxSplit("len", 3)
	l, model := vxNList("e", n, 0)
	k := vxInt64("k")
	vxAssume(k <= 3) // allocation sizes are outside the claim
	r, err := l.Repeat(SmallInt(k).ToValue())
	if k < 0 {
		vxAssert(vxIsErrorOf(err, OutOfRangeErrorClass), "native-repeat/negative-count-error")
		return
	}
	vxAssert(err.IsUndefined() && r != nil, "native-repeat/no-error")
	var want []int64
	for i := int64(0); i < k; i++ {
		want = append(want, model...)
	}
	vxAssert(vxNListIs(r, want), "native-repeat/sequence")
	vxAssert(vxNListIs(l, model), "native-repeat/operand-unchanged")
}

func VX_C24_native_grow_append() {
	n := vxSplit("len", 3)
	l, model := vxNList("e", n, vxSplit("extra", 2))
	l.Grow(vxSplit("slots", 3))
	vxAssert(vxNListIs(l, model), "native-grow/contents-kept")
	x := vxInt64("x")
	err := l.AppendVal(Int64(x).ToValue())
	vxAssert(err.IsUndefined(), "native-append/no-error")
	vxAssert(vxNListIs(l, append(append([]int64{}, model...), x)), "native-append/sequence")
	err = l.AppendVal(SmallInt(x).ToValue())
	vxAssert(!err.IsUndefined(), "native-append/wrong-element-type-is-an-error")
	vxAssert(l.Length() == n+1, "native-append/rejected-append-changes-nothing")
}

// typed tuple + generic list / generic tuple
func VX_C24_native_tuple_concat() {
	n := vxSplit("lenA", 3)
	m := vxSplit("lenB", 3)
	asList := vxSplit("rightIsList", 2) == 1
	a := make(NativeArrayTuple[Int64], 0, n)
	var ma, mb []int64
	for i := 0; i < n; i++ {
		x := vxInt64("a" + string(rune('0'+i)))
		ma = append(ma, x)
		a = append(a, Int64(x))
	}
	var elems []Value
	for i := 0; i < m; i++ {
		x := vxInt64("t" + string(rune('0'+i)))
		mb = append(mb, x)
		elems = append(elems, SmallInt(x).ToValue())
	}
	var right Value
	if asList {
		l := ArrayListOfValue(elems)
		right = Ref(&l)
	} else {
		right = Ref(NewArrayTupleOfValueWithElements(0, elems...))
	}
	rv, err := a.ConcatVal(right)
	vxAssert(err.IsUndefined() && rv.IsReference(), "native-tuple-concat/no-error")
	var got []Value
	switch r := rv.AsReference().(type) {
	case *ArrayListOfValue:
		vxAssert(asList, "native-tuple-concat/result-kind")
		got = *r
	case *ArrayTupleOfValue:
		vxAssert(!asList, "native-tuple-concat/result-kind")
		got = *r
	default:
		vxAssert(false, "native-tuple-concat/result-kind")
		return
	}
	vxAssert(len(got) == n+m, "native-tuple-concat/length")
	if len(got) != n+m {
		return
	}
	for i := 0; i < n; i++ {
		vxAssert(got[i].ValueFlag() == INT64_FLAG && int64(got[i].AsInt64()) == ma[i], "native-tuple-concat/left-elements-first")
	}
	for i := 0; i < m; i++ {
		vxAssert(got[n+i].IsSmallInt() && int64(got[n+i].AsSmallInt()) == mb[i], "native-tuple-concat/right-elements-after")
	}
}
