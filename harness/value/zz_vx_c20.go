//go:build verif

package value

import "unicode/utf8"

// C20: string operations agree with byte and code-point models on every byte string
// of bounded length, including invalid UTF-8.

// reference decomposition: one element per code point, invalid bytes count as one each
func vxChars(s string) []rune {
	var out []rune
	for len(s) > 0 {
		r, size := utf8.DecodeRuneInString(s)
		if r == utf8.RuneError && size == 1 {
			r = rune(s[0])
		}
		out = append(out, r)
		s = s[size:]
	}
	return out
}

func vxLenBound() int {
	if vxTier() == 0 {
		return 4
	}
	return 5
}

func VX_C20_bytes() {
	n := vxSplit("len", vxLenBound()+1)
	raw := vxString("s", n)
	s := String(raw)
	vxAssert(s.ByteCount() == n, "bytecount")
	i := vxInt("i")
	b, err := s.ByteAtInt(i)
	if i >= n || i < -n {
		vxAssert(vxIsErrorOf(err, IndexErrorClass), "byteat/out-of-range-error")
	} else {
		k := i
		if k < 0 {
			k += n
		}
		vxAssert(err.IsUndefined() && uint8(b) == raw[k], "byteat/byte")
	}
	rev := string(s.ReverseBytes())
	ok := len(rev) == n
	for j := 0; j < n && ok; j++ {
		ok = rev[j] == raw[n-1-j]
	}
	vxAssert(ok, "reversebytes")
}

func VX_C20_chars() {
	n := vxSplit("len", vxLenBound()+1)
	raw := vxString("s", n)
	s := String(raw)
	chars := vxChars(raw)
	vxAssert(s.CharCount() == len(chars), "charcount/equals-decomposition")
	i := vxInt("i")
	c, err := s.Get(i)
	k := i
	if k < 0 {
		k += len(chars)
	}
	if k < 0 || k >= len(chars) {
		vxAssert(vxIsErrorOf(err, IndexErrorClass), "get/out-of-range-error")
	} else {
		vxAssert(err.IsUndefined() && rune(c) == chars[k], "get/code-point")
	}
}

// padding is documented in code points
func VX_C20_just() {
	n := vxSplit("len", 4)
	raw := vxString("s", n)
	s := String(raw)
	target := vxInt("target")
	vxAssume(target >= -1 && target <= 5)
	pad := Char(vxInt32("pad"))
	vxAssume(pad >= 0x20 && pad <= 0x7e) // a printable ASCII padding character
	cc := s.CharCount()
	want := cc
	if target > want {
		want = target
	}
	id := ""
	if cc != n {
		id = "-multibyte" // region of the recorded finding: padding is computed from the byte length
	}
	r := s.RJust(target, pad)
	vxAssert(r.CharCount() == want, "rjust/char-count"+id)
	vxAssert(len(r) >= n && string(r[len(r)-n:]) == raw, "rjust/ends-with-original")
	l := s.LJust(target, pad)
	vxAssert(l.CharCount() == want, "ljust/char-count"+id)
	vxAssert(len(l) >= n && string(l[:n]) == raw, "ljust/starts-with-original")
}

func VX_C20_concat_repeat_cmp() {
	n := vxSplit("len", 3)
	m := vxSplit("len2", 3)
	a, b := vxString("a", n), vxString("b", m)
	r, err := String(a).Concat(Ref(String(b)))
	vxAssert(err.IsUndefined() && string(r) == a+b, "concat/sequence")
	k := int64(vxChoose("k", 5) - 1)
	rep, err2 := String(a).Repeat(SmallInt(k).ToValue())
	if k < 0 {
		vxAssert(vxIsErrorOf(err2, OutOfRangeErrorClass), "repeat/negative-count-error")
	} else {
		want := ""
		for j := int64(0); j < k; j++ {
			want += a
		}
		vxAssert(err2.IsUndefined() && string(rep) == want, "repeat/sequence")
	}
	c := String(a).Cmp(String(b))
	vxAssert((c < 0) == (a < b) && (c > 0) == (a > b) && (c == 0) == (a == b), "cmp/lexicographic-bytes")
	cut, err3 := String(a + b).RemoveSuffix(Ref(String(b)))
	vxAssert(err3.IsUndefined() && string(cut) == a, "removesuffix")
}

func VX_C20_reversechars() {
	n := vxSplit("len", vxLenBound()+1)
	raw := vxString("s", n)
	vxAssume(utf8.ValidString(raw))
	s := String(raw)
	r := s.ReverseChars()
	chars := vxChars(raw)
	rc := vxChars(string(r))
	ok := len(rc) == len(chars)
	for j := 0; j < len(chars) && ok; j++ {
		ok = rc[j] == chars[len(chars)-1-j]
	}
	vxAssert(ok, "reversechars/reverses-the-code-points")
	vxAssert(string(r.ReverseChars()) == raw, "reversechars/involution")
}
