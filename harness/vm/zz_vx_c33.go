//go:build verif

package vm

import (
	"context"
	"time"

	"github.com/elk-language/elk/bytecode"
	"github.com/elk-language/elk/value"
)

// C33: once the context is cancelled, a running program stops with ExecutionAbortedError:
// the abort-check instruction in a loop, and the blocking operations.

type vxCtx struct{ done chan struct{} }

func (c *vxCtx) Done() <-chan struct{}             { return c.done }
func (c *vxCtx) Err() error                        { return nil }
func (c *vxCtx) Deadline() (d time.Time, ok bool)  { return }
func (c *vxCtx) Value(key any) any                 { return nil }

var _ context.Context = (*vxCtx)(nil)

func vxAbortableThread(ctx *vxCtx, fn *BytecodeFunction, locals ...value.Value) *Thread {
	vm := vxThread(8)
	vm.callFrames = make([]CallFrame, 2)
	vm.cfpSet(&vm.callFrames[0])
	vm.Aborter = value.NewAborter(ctx, func() {})
	vm.bytecode = fn
	vm.ipSet(&fn.Instructions[0])
	for _, l := range locals {
		vm.push(l)
	}
	vm.localCount = len(locals)
	return vm
}

func vxAborted(vm *Thread) bool {
	return vm.state == errorState && vm.peek() == value.ExecutionAbortedError.ToValue()
}

// the endless loop `loop; end` compiled with abort checks: [CHECK_ABORT, LOOP -4]; the context is
// cancelled by another thread at an arbitrary moment (any fair schedule)
func VX_C33_check_abort_loop() {
	vxSpinBound(14)
	ctx := &vxCtx{done: make(chan struct{})}
	fn := &BytecodeFunction{Instructions: []byte{byte(bytecode.CHECK_ABORT), byte(bytecode.LOOP), 0, 4}}
	vm := vxAbortableThread(ctx, fn, value.Nil)
	vxGo(func() { close(ctx.done) })
	vxGo(func() { vm.run() })
	vxJoin()
	vxAssert(vxAborted(vm), "check-abort/a-cancelled-loop-ends-with-ExecutionAborted")
}

// a context that was cancelled before the program started
func VX_C33_cancelled_before_start() {
	ctx := &vxCtx{done: make(chan struct{})}
	close(ctx.done)
	fn := &BytecodeFunction{Instructions: []byte{byte(bytecode.CHECK_ABORT), byte(bytecode.LOOP), 0, 4}}
	vm := vxAbortableThread(ctx, fn, value.Nil)
	vm.run()
	vxAssert(vxAborted(vm), "check-abort/cancelled-before-start")
}

// straight-line code with abort checks: either it was cancelled before one of the checks and
// aborts, or it finishes normally - and it always aborts when the cancellation came first
func VX_C33_check_abort_sequence() {
	ctx := &vxCtx{done: make(chan struct{})}
	fn := &BytecodeFunction{Instructions: []byte{byte(bytecode.CHECK_ABORT), byte(bytecode.CHECK_ABORT), byte(bytecode.INT_1), byte(bytecode.RETURN)}}
	vm := vxAbortableThread(ctx, fn, value.Nil)
	cancelledFirst := false
	started := false
	vxGo(func() {
		close(ctx.done)
		cancelledFirst = !started
	})
	vxGo(func() {
		started = true
		vm.run()
	})
	vxJoin()
	vxAssert(vxAborted(vm) || (vm.state != errorState && vxIs(vm.peek(), 1)), "check-abort/aborted-or-finished")
	if cancelledFirst {
		vxAssert(vxAborted(vm), "check-abort/cancellation-before-the-first-check-aborts")
	}
}

// blocking await: AWAIT_SYNC on a promise nobody resolves must end with ExecutionAborted once
// the context is cancelled
func VX_C33_await_sync() {
	ctx := &vxCtx{done: make(chan struct{})}
	tp := &ThreadPool{TaskQueue: make(chan *Promise, 1)}
	p := NewExternalPromise(tp)
	fn := &BytecodeFunction{Instructions: []byte{byte(bytecode.GET_LOCAL_1), byte(bytecode.AWAIT_SYNC), byte(bytecode.RETURN)}, parameterCount: 1}
	vm := vxAbortableThread(ctx, fn, value.Nil, value.Ref(p))
	vxGo(func() { close(ctx.done) })
	vxGo(func() { vm.run() })
	vxJoin()
	vxAssert(vxAborted(vm), "await-sync/a-cancelled-wait-ends-with-ExecutionAborted")
}

// blocking lock / wait group wait of the natives Mutex#lock and WaitGroup#wait
func VX_C33_mutex_lock() {
	ctx := &vxCtx{done: make(chan struct{})}
	m := value.NewMutex()
	m.Lock() // held by someone who never unlocks
	vm := vxAbortableThread(ctx, &BytecodeFunction{Instructions: []byte{byte(bytecode.RETURN)}}, value.Nil)
	lock := vxNativeOf("initMutex", value.MutexClass, "lock")
	var err value.Value
	vxGo(func() { close(ctx.done) })
	vxGo(func() { _, err = lock(vm, []value.Value{value.Ref(m)}) })
	vxJoin()
	vxAssert(err == value.ExecutionAbortedError.ToValue(), "mutex-lock/a-cancelled-lock-ends-with-ExecutionAborted")
}

// natively the classes are initialised by package init and the registered method is looked up;
// the engine resolves the Def(...) site of the named init function from the current SSA
func vxNativeOf(initFn string, class *value.Class, name string) NativeFunction {
	return class.Methods[value.ToSymbol(name)].(*NativeMethod).Function
}
