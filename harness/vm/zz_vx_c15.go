//go:build verif

package vm

import (
	"unsafe"

	"github.com/elk-language/elk/bytecode"
	"github.com/elk-language/elk/value"
)

// C15: suspending and resuming a body (generator yield, async await) does not change what the
// body computes: yielded values come out in order, the frame is restored exactly, the caller's
// slots are untouched, a finished generator stays finished; an async body that suspends several
// times at different operand-stack depths still computes from its own values.

// generator body of the shape the compiler emits: GENERATOR RETURN (GET_LOCAL_i YIELD)^3 STOP_ITERATION LOOP
func vxGeneratorBody() *BytecodeFunction {
	return &BytecodeFunction{Instructions: []byte{
		byte(bytecode.GENERATOR), byte(bytecode.RETURN),
		byte(bytecode.GET_LOCAL_1), byte(bytecode.YIELD),
		byte(bytecode.GET_LOCAL_2), byte(bytecode.YIELD),
		byte(bytecode.GET_LOCAL_3), byte(bytecode.YIELD),
		byte(bytecode.STOP_ITERATION), byte(bytecode.LOOP), 0, 4,
	}, parameterCount: 3}
}

func VX_C15_generator() {
	v := [3]int64{vxInt64("v1"), vxInt64("v2"), vxInt64("v3")}
	fn := vxGeneratorBody()
	gen := newGenerator(fn, nil, []value.Value{value.Nil, value.SmallInt(v[0]).ToValue(), value.SmallInt(v[1]).ToValue(), value.SmallInt(v[2]).ToValue()}, uintptr(unsafe.Pointer(&fn.Instructions[2])))
	vm := vxThread(16)
	vm.callFrames = make([]CallFrame, 4)
	vm.cfpSet(&vm.callFrames[0])
	a, b := vxInt64("a"), vxInt64("b")
	vm.push(value.SmallInt(a).ToValue())
	for i := 0; i < 3; i++ {
		if i == vxSplit("callerPushesBefore", 3) {
			// the caller's stack depth differs between resumptions
			vm.push(value.SmallInt(b).ToValue())
		}
		depth := vm.spOffset()
		got, err := vm.CallGeneratorNext(gen)
		vxAssert(err.IsUndefined() && vxIs(got, v[i]), "generator/yields-its-values-in-order")
		vxAssert(vm.spOffset() == depth, "generator/caller-stack-depth-unchanged")
		vxAssert(vxIs(vm.stack[0], a), "generator/caller-slots-untouched")
		vxAssert(len(gen.stack) == 4 && vxIs(gen.stack[1], v[0]) && vxIs(gen.stack[2], v[1]) && vxIs(gen.stack[3], v[2]), "generator/frame-saved-exactly")
	}
	for i := 0; i < 2; i++ {
		got, err := vm.CallGeneratorNext(gen)
		vxAssert(got.IsUndefined() && err.IsInlineSymbol() && err.AsInlineSymbol() == value.ToSymbol("stop_iteration"), "generator/finished-generator-signals-stop-again-and-again")
	}
	vxAssert(vxIs(vm.stack[0], a), "generator/caller-slots-untouched-at-the-end")
}

// async body with two suspensions, the second at a shallower operand-stack depth than the first:
//   INT_1 p1 AWAIT AWAIT_RESULT POP POP p2 AWAIT AWAIT_RESULT RETURN    (result: value of p2)
func VX_C15_async_two_awaits() {
	tp := vxPool(1, 1)
	p1, p2 := NewExternalPromise(tp), NewExternalPromise(tp)
	x, y := vxInt64("x"), vxInt64("y")
	fn := &BytecodeFunction{Instructions: []byte{
		byte(bytecode.INT_1),
		byte(bytecode.GET_LOCAL_1), byte(bytecode.AWAIT), byte(bytecode.AWAIT_RESULT),
		byte(bytecode.POP), byte(bytecode.POP),
		byte(bytecode.GET_LOCAL_2), byte(bytecode.AWAIT), byte(bytecode.AWAIT_RESULT),
		byte(bytecode.RETURN),
	}, parameterCount: 2}
	task := NewBytecodePromise(tp, fn, value.Nil, value.Ref(p1), value.Ref(p2))
	vxGo(func() {
		p1.Resolve(value.SmallInt(x).ToValue())
		p2.Resolve(value.SmallInt(y).ToValue())
	})
	res, _, err := task.AwaitSync()
	vxAssert(err.IsUndefined() && vxIs(res, y), "async/body-result-is-computed-from-its-own-values-after-two-suspensions")
	tp.Close()
	vxJoin()
}

// the value produced by the body is the value the promise settles with (and an error thrown
// by an awaited promise is the error the task is rejected with)
func VX_C15_async_value_then_error() {
	tp := vxPool(1, 1)
	p1, p2 := NewExternalPromise(tp), NewExternalPromise(tp)
	x := vxInt64("x")
	fn := &BytecodeFunction{Instructions: []byte{
		byte(bytecode.GET_LOCAL_1), byte(bytecode.AWAIT), byte(bytecode.AWAIT_RESULT),
		byte(bytecode.GET_LOCAL_2), byte(bytecode.AWAIT), byte(bytecode.AWAIT_RESULT),
		byte(bytecode.RETURN),
	}, parameterCount: 2}
	task := NewBytecodePromise(tp, fn, value.Nil, value.Ref(p1), value.Ref(p2))
	vxGo(func() {
		p1.Resolve(value.SmallInt(x).ToValue())
		p2.Reject(value.SmallInt(9).ToValue(), nil)
	})
	_, _, err := task.AwaitSync()
	vxAssert(vxIs(err, 9), "async/an-awaited-error-rejects-the-task")
	tp.Close()
	vxJoin()
}

// awaiting one promise twice (already settled the second time, settled or not the first time,
// depending on the schedule) gives its value both times and leaves the promise usable:
//   p AWAIT AWAIT_RESULT POP p AWAIT AWAIT_RESULT RETURN
func VX_C15_async_await_twice() {
	tp := vxPool(1, 1)
	p := NewExternalPromise(tp)
	x := vxInt64("x")
	fn := &BytecodeFunction{Instructions: []byte{
		byte(bytecode.GET_LOCAL_1), byte(bytecode.AWAIT), byte(bytecode.AWAIT_RESULT),
		byte(bytecode.POP),
		byte(bytecode.GET_LOCAL_1), byte(bytecode.AWAIT), byte(bytecode.AWAIT_RESULT),
		byte(bytecode.RETURN),
	}, parameterCount: 1}
	task := NewBytecodePromise(tp, fn, value.Nil, value.Ref(p))
	vxGo(func() {
		p.Resolve(value.SmallInt(x).ToValue())
	})
	res, _, err := task.AwaitSync()
	vxAssert(err.IsUndefined() && vxIs(res, x), "async/awaiting-a-promise-twice-gives-its-value-twice")
	res2, _, err2 := p.AwaitSync()
	vxAssert(err2.IsUndefined() && vxIs(res2, x), "async/an-awaited-promise-can-still-be-awaited-synchronously")
	tp.Close()
	vxJoin()
}
