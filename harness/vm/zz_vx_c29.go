//go:build verif

package vm

import (
	"github.com/elk-language/elk/bytecode"
	"github.com/elk-language/elk/value"
)

// VXExec runs the real run loop on fn with the given locals (slot 0 = self) on a fresh
// thread and returns the value left on top of the stack and the thread's error.
func VXExec(fn *BytecodeFunction, locals []value.Value, extraSlots int, upvalues []*Upvalue) (value.Value, value.Value) {
	vm := vxThread(len(locals) + extraSlots + 2)
	vm.callFrames = make([]CallFrame, 2)
	vm.cfpSet(&vm.callFrames[0])
	vm.bytecode = fn
	vm.ipSet(&fn.Instructions[0])
	for _, l := range locals {
		vm.push(l)
	}
	vm.localCount = len(locals)
	vm.upvalues = upvalues
	vm.run()
	if vm.state == errorState {
		return value.Undefined, vm.peek()
	}
	return vm.peek(), value.Undefined
}

// probe: the run loop itself executes under the engine
func VX_C29_runloop_probe() {
	x := vxInt64("x")
	fn := &BytecodeFunction{Instructions: []byte{byte(bytecode.GET_LOCAL_1), byte(bytecode.RETURN)}}
	got, err := VXExec(fn, []value.Value{value.Nil, value.SmallInt(x).ToValue()}, 2, nil)
	vxAssert(err.IsUndefined() && got.IsSmallInt() && int64(got.AsSmallInt()) == x, "probe/get-local-1")
}
