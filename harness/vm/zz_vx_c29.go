//go:build verif

package vm

import (
	"io"

	"github.com/elk-language/elk/bitfield"
	"github.com/elk-language/elk/bytecode"
	"github.com/elk-language/elk/value"
)

// VXExec runs the real run loop on fn with the given locals (slot 0 = self) on a fresh
// thread and returns the value left on top of the stack and the thread's error.
func VXExec(fn *BytecodeFunction, locals []value.Value, extraSlots int, upvalues []*Upvalue) (value.Value, value.Value) {
	vm := vxThread(len(locals) + extraSlots + 2)
	vm.callFrames = make([]CallFrame, 2)
	vm.cfpSet(&vm.callFrames[0])
	vm.bytecode = fn
	vm.ipSet(&fn.Instructions[0])
	for _, l := range locals {
		vm.push(l)
	}
	vm.localCount = len(locals)
	vm.upvalues = upvalues
	vm.run()
	if vm.state == errorState {
		return value.Undefined, vm.peek()
	}
	return vm.peek(), value.Undefined
}

// probe: the run loop itself executes under the engine
func VX_C29_runloop_probe() {
	x := vxInt64("x")
	fn := &BytecodeFunction{Instructions: []byte{byte(bytecode.GET_LOCAL_1), byte(bytecode.RETURN)}}
	got, err := VXExec(fn, []value.Value{value.Nil, value.SmallInt(x).ToValue()}, 2, nil)
	vxAssert(err.IsUndefined() && got.IsSmallInt() && int64(got.AsSmallInt()) == x, "probe/get-local-1")
}

// the disassembler reads a CLOSURE instruction the way the compiler writes it and the run loop
// reads it: one flags byte and an 8 or 16 bit index per upvalue (every index, so also index bytes
// equal to the terminator byte 0xFF), then the terminator. It reports no error and the offset of
// the following instruction.
func VX_C29_disassemble_closure() {
	n := 1 + vxSplit("upvalues", 2)
	code := []byte{byte(bytecode.CLOSURE)}
	for k := 0; k < n; k++ {
		name := string(rune('0' + k))
		var flags bitfield.BitField8
		if vxChoose("local"+name, 2) == 1 { // one path per flag value: the flags byte stays concrete
			flags.SetFlag(UpvalueLocalFlag)
		}
		idx := vxUint16("idx" + name)
		if idx > 255 {
			flags.SetFlag(UpvalueLongIndexFlag)
			code = append(code, flags.Byte(), byte(idx>>8), byte(idx))
		} else {
			code = append(code, flags.Byte(), byte(idx))
		}
	}
	code = append(code, ClosureTerminatorFlag, byte(bytecode.RETURN))
	fn := NewBytecodeFunctionSimple(value.ToSymbol("h"), code, nil)
	next, err := fn.DisassembleInstruction(io.Discard, 0)
	vxAssert(err == nil, "disassemble-closure/no-error")
	vxAssert(next == len(code)-1, "disassemble-closure/next-instruction-follows-the-terminator")
	vxAssert(fn.Disassemble(io.Discard) == nil, "disassemble-closure/whole-function-disassembles")
}
