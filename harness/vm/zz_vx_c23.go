//go:build verif

package vm

import (
	"math/big"

	"github.com/elk-language/elk/value"
)

// C23 (ranges over integers): contains agrees with the bounds, iteration yields exactly the
// elements start.. in order and then stops, for the eight range kinds. Bounds and elements are
// arbitrary Elk Ints (SmallInt or BigInt, unbounded, int mode) or Int8 values (wrap-around).

const (
	vxClosed = iota
	vxOpen
	vxLeftOpen
	vxRightOpen
	vxBeginlessClosed
	vxBeginlessOpen
	vxEndlessClosed
	vxEndlessOpen
)

func vxRangeContains(kind int, s, e, v value.Value) (bool, value.Value) {
	switch kind {
	case vxClosed:
		return ClosedRangeContains(nil, value.NewClosedRange(s, e), v)
	case vxOpen:
		return OpenRangeContains(nil, value.NewOpenRange(s, e), v)
	case vxLeftOpen:
		return LeftOpenRangeContains(nil, value.NewLeftOpenRange(s, e), v)
	case vxRightOpen:
		return RightOpenRangeContains(nil, value.NewRightOpenRange(s, e), v)
	case vxBeginlessClosed:
		return BeginlessClosedRangeContains(nil, value.NewBeginlessClosedRange(e), v)
	case vxBeginlessOpen:
		return BeginlessOpenRangeContains(nil, value.NewBeginlessOpenRange(e), v)
	case vxEndlessClosed:
		return EndlessClosedRangeContains(nil, value.NewEndlessClosedRange(s), v)
	default:
		return EndlessOpenRangeContains(nil, value.NewEndlessOpenRange(s), v)
	}
}

func vxInBounds(kind int, s, e, v *big.Int) bool {
	geS, gtS := v.Cmp(s) >= 0, v.Cmp(s) > 0
	leE, ltE := v.Cmp(e) <= 0, v.Cmp(e) < 0
	switch kind {
	case vxClosed:
		return geS && leE
	case vxOpen:
		return gtS && ltE
	case vxLeftOpen:
		return gtS && leE
	case vxRightOpen:
		return geS && ltE
	case vxBeginlessClosed:
		return leE
	case vxBeginlessOpen:
		return ltE
	case vxEndlessClosed:
		return geS
	default:
		return gtS
	}
}

func VX_C23_contains() {
	vxMode("int")
	kind := vxSplit("kind", 8)
	s, e, v := vxElkInt("s"), vxElkInt("e"), vxElkInt("v")
	S, _ := vxMath(s)
	E, _ := vxMath(e)
	V, _ := vxMath(v)
	got, err := vxRangeContains(kind, s, e, v)
	vxAssert(err.IsUndefined(), "contains/no-error")
	vxAssert(got == vxInBounds(kind, S, E, V), "contains/agrees-with-the-bounds")
}

// one iterator per kind behind a common closure
func vxRangeIter(kind int, s, e value.Value) func() (value.Value, value.Value) {
	switch kind {
	case vxClosed:
		it := value.NewClosedRangeIterator(value.NewClosedRange(s, e))
		return func() (value.Value, value.Value) { return ClosedRangeIteratorNext(nil, it) }
	case vxOpen:
		it := value.NewOpenRangeIterator(value.NewOpenRange(s, e))
		return func() (value.Value, value.Value) { return OpenRangeIteratorNext(nil, it) }
	case vxLeftOpen:
		it := value.NewLeftOpenRangeIterator(value.NewLeftOpenRange(s, e))
		return func() (value.Value, value.Value) { return LeftOpenRangeIteratorNext(nil, it) }
	case vxRightOpen:
		it := value.NewRightOpenRangeIterator(value.NewRightOpenRange(s, e))
		return func() (value.Value, value.Value) { return RightOpenRangeIteratorNext(nil, it) }
	case vxEndlessClosed:
		it := value.NewEndlessClosedRangeIterator(value.NewEndlessClosedRange(s))
		return func() (value.Value, value.Value) { return EndlessClosedRangeIteratorNext(nil, it) }
	default:
		it := value.NewEndlessOpenRangeIterator(value.NewEndlessOpenRange(s))
		return func() (value.Value, value.Value) { return EndlessOpenRangeIteratorNext(nil, it) }
	}
}

var vxIterKinds = [6]int{vxClosed, vxOpen, vxLeftOpen, vxRightOpen, vxEndlessClosed, vxEndlessOpen}

func vxIsStop(err value.Value) bool {
	return err.IsInlineSymbol() && err.AsInlineSymbol() == value.ToSymbol("stop_iteration")
}

// Iteration of a range over Ints whose bounds are at most 3 apart (any magnitude, so the
// SmallInt/BigInt boundary is crossed): exactly the members, ascending, then stop (again and again).
func VX_C23_iterate() {
	vxMode("int")
	kind := vxIterKinds[vxSplit("kind", 6)]
	s := vxElkInt("s")
	S, _ := vxMath(s)
	width := vxSplit("width", 5) - 1 // e = s + width, width -1..3
	E := new(big.Int).Add(S, big.NewInt(int64(width)))
	e := vxToElk(E)
	next := vxRangeIter(kind, s, e)
	endless := kind == vxEndlessClosed || kind == vxEndlessOpen
	cur := new(big.Int).Set(S)
	if kind == vxOpen || kind == vxLeftOpen || kind == vxEndlessOpen {
		cur.Add(cur, big.NewInt(1))
	}
	for step := 0; step < 6; step++ {
		v, err := next()
		member := vxInBounds(kind, S, E, cur)
		if member && (!endless || step < 4) {
			V, isInt := vxMath(v)
			vxAssert(err.IsUndefined() && isInt && V.Cmp(cur) == 0, "iterate/next-is-the-next-member")
			vxAssert(vxCanonical(v), "iterate/element-is-a-canonical-int")
			cur.Add(cur, big.NewInt(1))
			continue
		}
		if endless {
			return
		}
		vxAssert(vxIsStop(err), "iterate/stops-after-the-last-member")
		return
	}
}

func vxToElk(b *big.Int) value.Value {
	if b.IsInt64() {
		return value.SmallInt(b.Int64()).ToValue()
	}
	return value.Ref(value.ToElkBigInt(b))
}

func vxCanonical(v value.Value) bool {
	if v.IsSmallInt() {
		return true
	}
	B, ok := vxMath(v)
	return ok && !B.IsInt64()
}

// the same over a fixed-width element type: a range that ends at the type's maximum must
// still stop (no wrap-around into an endless iteration)
func VX_C23_iterate_int8() {
	kind := vxIterKinds[vxSplit("kind", 4)]
	s8 := vxInt8("s")
	width := vxSplit("width", 4) // e = s + width, 0..3, no overflow
	vxAssume(int(s8)+width <= 127)
	e8 := s8 + int8(width)
	next := vxRangeIter(kind, value.Int8(s8).ToValue(), value.Int8(e8).ToValue())
	cur := int(s8)
	if kind == vxOpen || kind == vxLeftOpen {
		cur++
	}
	S, E := big.NewInt(int64(s8)), big.NewInt(int64(e8))
	for step := 0; step < 6; step++ {
		v, err := next()
		if vxInBounds(kind, S, E, big.NewInt(int64(cur))) {
			vxAssert(err.IsUndefined() && v.ValueFlag() == value.INT8_FLAG && int(v.AsInt8()) == cur, "iterate-int8/next-is-the-next-member")
			cur++
			continue
		}
		// (one stop ends the iteration; what later calls return is not part of the property)
		if e8 == 127 {
			vxAssert(vxIsStop(err), "iterate-int8/stops-when-the-end-is-the-type-maximum")
		} else {
			vxAssert(vxIsStop(err), "iterate-int8/stops-after-the-last-member")
		}
		return
	}
}
