//go:build verif

package vm

import "github.com/elk-language/elk/value"

// C17: one operation from an arbitrary valid table state refines a finite map.
// Keys are SmallInts, the hash is an uninterpreted function of the key (every collision
// pattern), slots are independently empty, tombstone (deleted) or live.

const (
	vxEmpty = iota
	vxTomb
	vxLive
)

type vxMapState struct {
	h     *HashMapOfValue
	state []int
	keys  []int64
	vals  []int64
}

func vxTombstone() value.PairOfValue {
	return value.MakePairOfValue(value.Undefined, value.True.ToValue())
}

// vxHashMap builds a table of capacity c in an arbitrary state satisfying the representation
// invariant R (assumed here, asserted after every operation).
func vxKeyHash(k int64) uint64 {
	h, _ := Hash(nil, value.SmallInt(k).ToValue())
	return uint64(h)
}

// every capacity that occurs in these harnesses is <= 12
func vxKey(name string) int64 {
	return vxKeyInt64(name, vxKeyHash, 2, 3, 4, 5, 6, 7, 8, 9, 10, 11, 12)
}

func vxHashMap(name string, c int) *vxMapState {
	vxSplitIndex()
	vxHashBits(16)
	t := &vxMapState{h: NewHashMapOfValue(c), state: make([]int, c), keys: make([]int64, c), vals: make([]int64, c)}
	for i := 0; i < c; i++ {
		n := name + string(rune('0'+i))
		t.state[i] = vxChoose(n+".state", 3)
		switch t.state[i] {
		case vxTomb:
			t.h.Table[i] = vxTombstone()
			t.h.OccupiedSlots++
		case vxLive:
			t.keys[i] = vxKey(n + ".key")
			if c > 1 {
				// the home slot of the key is chosen up front (one case per slot)
				vxAssume(int(vxKeyHash(t.keys[i])%uint64(c)) == vxChoose(n+".home", c))
			}
			t.vals[i] = vxInt64(n + ".val")
			t.h.Table[i] = value.MakePairOfValue(value.SmallInt(t.keys[i]).ToValue(), value.SmallInt(t.vals[i]).ToValue())
			t.h.OccupiedSlots++
			t.h.Elements++
		}
	}
	vxAssume(vxInvariant(t.h))
	return t
}

func vxHomeSlot(h *HashMapOfValue, key value.Value) int {
	hash, _ := Hash(nil, key)
	return int(hash % value.UInt64(h.Capacity()))
}

// R: counters agree with the slots, live keys are SmallInts and pairwise different, and every
// live key is found by probing from its home slot without crossing an empty slot.
func vxInvariant(h *HashMapOfValue) bool {
	c := h.Capacity()
	live, occupied := 0, 0
	for i := 0; i < c; i++ {
		e := h.Table[i]
		if e.Key().IsUndefined() {
			if !e.Value().IsUndefined() {
				occupied++
			}
			continue
		}
		live++
		occupied++
		if !e.Key().IsSmallInt() {
			return false
		}
		for j := 0; j < i; j++ {
			o := h.Table[j]
			if !o.Key().IsUndefined() && o.Key().AsSmallInt() == e.Key().AsSmallInt() {
				return false
			}
		}
		home := vxHomeSlot(h, e.Key())
		p := home
		for p != i {
			pe := h.Table[p]
			if pe.Key().IsUndefined() && pe.Value().IsUndefined() {
				return false // an empty slot between the home slot and the entry
			}
			p++
			if p == c {
				p = 0
			}
		}
	}
	return h.Elements == live && h.OccupiedSlots == occupied
}

// the finite map the table denotes, evaluated at one key (written without early exits so that
// the engine turns the key comparisons into if-then-else terms instead of forking)
func vxLookup(h *HashMapOfValue, k int64) (int64, bool) {
	found := false
	var val int64
	for i := 0; i < h.Capacity(); i++ {
		e := h.Table[i]
		if e.Key().IsUndefined() || !e.Key().IsSmallInt() {
			continue
		}
		if int64(e.Key().AsSmallInt()) == k {
			found = true
			val = 0
			if e.Value().IsSmallInt() {
				val = int64(e.Value().AsSmallInt())
			}
		}
	}
	return val, found
}

func vxCap() int {
	if vxTier() == 0 {
		return 1 + vxSplit("cap", 2)
	}
	return 1 + vxSplit("cap", 3)
}

// lookups and removals are cheap: one more capacity in both tiers
func vxCapLookup() int {
	if vxTier() == 0 {
		return 1 + vxSplit("cap", 3)
	}
	return 1 + vxSplit("cap", 4)
}

// capacity of the second operand of a binary operation
func vxCap2() int {
	if vxTier() == 0 {
		return 1
	}
	return 1 + vxSplit("capy", 2)
}

func VX_C17_get() {
	t := vxHashMap("s", vxCapLookup())
	q := vxKey("q")
	want, present := vxLookup(t.h, q)
	got, err := HashMapOfValueGet(nil, t.h, value.SmallInt(q).ToValue())
	vxAssert(err.IsUndefined(), "get/no-error")
	if present {
		vxAssert(got.IsSmallInt() && int64(got.AsSmallInt()) == want, "get/present-key-finds-its-value")
	} else {
		vxAssert(got.IsUndefined(), "get/absent-key")
	}
	has, err2 := HashMapOfValueContainsKey(nil, t.h, value.SmallInt(q).ToValue())
	vxAssert(err2.IsUndefined() && has == present, "containskey")
	vxAssert(t.h.Length() == t.h.Elements, "length")
}

func VX_C17_set() {
	t := vxHashMap("s", vxCap())
	// (Get after Set follows from VX_C17_get, which starts from any state satisfying the invariant that Set is shown to preserve)
	q, v, probe := vxKey("q"), vxInt64("v"), vxKey("probe")
	oldLen := t.h.Length()
	oldVal, oldPresent := vxLookup(t.h, probe)
	_, qPresent := vxLookup(t.h, q)
	err := HashMapOfValueSet(nil, t.h, value.SmallInt(q).ToValue(), value.SmallInt(v).ToValue())
	vxAssert(err.IsUndefined(), "set/no-error")
	vxAssert(vxInvariant(t.h), "set/invariant-preserved")
	got, present := vxLookup(t.h, probe)
	if probe == q {
		vxAssert(present && got == v, "set/key-maps-to-value")
	} else {
		vxAssert(present == oldPresent && (!present || got == oldVal), "set/other-keys-unchanged")
	}
	wantLen := oldLen
	if !qPresent {
		wantLen++
	}
	vxAssert(t.h.Length() == wantLen, "set/length-is-number-of-distinct-keys")
}

func VX_C17_delete() {
	t := vxHashMap("s", vxCapLookup())
	q, probe := vxKey("q"), vxKey("probe")
	oldLen := t.h.Length()
	oldVal, oldPresent := vxLookup(t.h, probe)
	_, qPresent := vxLookup(t.h, q)
	removed, err := HashMapOfValueDelete(nil, t.h, value.SmallInt(q).ToValue())
	vxAssert(err.IsUndefined(), "delete/no-error")
	vxAssert(removed == qPresent, "delete/reports-presence")
	vxAssert(vxInvariant(t.h), "delete/invariant-preserved")
	got, present := vxLookup(t.h, probe)
	if probe == q {
		vxAssert(!present, "delete/key-is-gone")
	} else {
		vxAssert(present == oldPresent && (!present || got == oldVal), "delete/other-keys-unchanged")
	}
	wantLen := oldLen
	if qPresent {
		wantLen--
	}
	vxAssert(t.h.Length() == wantLen, "delete/length")
}

func VX_C17_resize() {
	t := vxHashMap("s", vxCap())
	probe := vxKey("probe")
	oldVal, oldPresent := vxLookup(t.h, probe)
	oldLen := t.h.Length()
	newCap := t.h.Length() + vxSplit("extra", 3)
	if newCap == 0 {
		newCap = 1
	}
	err := HashMapOfValueSetCapacity(nil, t.h, newCap)
	vxAssert(err.IsUndefined(), "resize/no-error")
	vxAssert(vxInvariant(t.h), "resize/invariant-preserved")
	got, present := vxLookup(t.h, probe)
	vxAssert(present == oldPresent && (!present || got == oldVal), "resize/map-unchanged")
	vxAssert(t.h.Length() == oldLen, "resize/length")
}

// x + y: right-biased union, length = number of distinct keys
func VX_C17_concat() {
	x := vxHashMap("x", 1+vxSplit("capx", 2))
	y := vxHashMap("y", vxCap2())
	probe := vxKey("probe")
	xv, xp := vxLookup(x.h, probe)
	yv, yp := vxLookup(y.h, probe)
	// number of distinct keys of the union
	distinct := y.h.Length()
	for i := 0; i < x.h.Capacity(); i++ {
		e := x.h.Table[i]
		if e.Key().IsUndefined() {
			continue
		}
		if _, inY := vxLookup(y.h, int64(e.Key().AsSmallInt())); !inY {
			distinct++
		}
	}
	r, err := HashMapOfValueConcat(nil, x.h, y.h)
	vxAssert(err.IsUndefined(), "concat/no-error")
	got, present := vxLookup(r, probe)
	switch {
	case yp:
		vxAssert(present && got == yv, "concat/right-operand-wins")
	case xp:
		vxAssert(present && got == xv, "concat/left-entries-kept")
	default:
		vxAssert(!present, "concat/no-new-keys")
	}
	vxAssert(r.Length() == distinct, "concat/length-is-number-of-distinct-keys")
	vxAssert(vxInvariant(r), "concat/invariant")
	// x + y is a NEW map: changing it later does not change an operand
	vxAssert(r != x.h && r != y.h, "concat/result-is-a-new-map")
	for i := range r.Table {
		r.Table[i] = vxTombstone() // overwrite the result's storage
	}
	_, xp2 := vxLookup(x.h, probe)
	_, yp2 := vxLookup(y.h, probe)
	vxAssert(xp2 == xp && yp2 == yp, "concat/operands-independent-of-later-changes-to-the-result")
}
