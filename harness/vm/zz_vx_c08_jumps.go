//go:build verif

package vm

import (
	"github.com/elk-language/elk/bytecode"
	"github.com/elk-language/elk/value"
)

// C08 (fused compare-and-jump): the condition instructions the compiler emits for comparisons in
// `if`/`while`/`unless` position decide exactly like the value-level comparison of the same
// operands. Micro-bytecode through the real run loop:
//   GET_LOCAL_1 GET_LOCAL_2 <OP> 0 2   INT_1 RETURN   INT_2 RETURN
// falls through (result 1) or jumps over two bytes (result 2).

type vxJumpOp struct {
	op         bytecode.OpCode
	cmp        func(l, r value.Value) (value.Value, value.Value)
	jumpIfTrue bool
}

func vxEq(l, r value.Value) (value.Value, value.Value) { return value.EqualVal(l, r), value.Undefined }

var vxIntJumps = []vxJumpOp{
	{bytecode.JUMP_UNLESS_ILE, value.LessThanEqualVal, false},
	{bytecode.JUMP_UNLESS_ILT, value.LessThanVal, false},
	{bytecode.JUMP_UNLESS_IGE, value.GreaterThanEqualVal, false},
	{bytecode.JUMP_UNLESS_IGT, value.GreaterThanVal, false},
	{bytecode.JUMP_UNLESS_IEQ, vxEq, false},
	{bytecode.JUMP_IF_IEQ, vxEq, true},
}

var vxGenericJumps = []vxJumpOp{
	{bytecode.JUMP_UNLESS_LE, value.LessThanEqualVal, false},
	{bytecode.JUMP_UNLESS_LT, value.LessThanVal, false},
	{bytecode.JUMP_UNLESS_GE, value.GreaterThanEqualVal, false},
	{bytecode.JUMP_UNLESS_GT, value.GreaterThanVal, false},
	{bytecode.JUMP_UNLESS_EQ, vxEq, false},
	{bytecode.JUMP_IF_EQ, vxEq, true},
}

func vxRunJump(j vxJumpOp, l, r value.Value, tag string) {
	fn := &BytecodeFunction{Instructions: []byte{
		byte(bytecode.GET_LOCAL_1), byte(bytecode.GET_LOCAL_2), byte(j.op), 0, 2,
		byte(bytecode.INT_1), byte(bytecode.RETURN),
		byte(bytecode.INT_2), byte(bytecode.RETURN),
	}, parameterCount: 2}
	want, werr := j.cmp(l, r)
	vxAssume(werr.IsUndefined() && !want.IsUndefined())
	got, err := VXExec(fn, []value.Value{value.Nil, l, r}, 3, nil)
	vxAssert(err.IsUndefined() && got.IsSmallInt(), tag+"/runs")
	jumped := got.IsSmallInt() && got.AsSmallInt() == 2
	vxAssert(jumped == (value.Truthy(want) == j.jumpIfTrue), tag+"/jump-decision-equals-the-value-level-comparison")
}

// Int-typed fused jumps on Int operands of both representations (exact integers)
func VX_C08_jump_int() {
	vxMode("int")
	j := vxIntJumps[vxSplit("op", len(vxIntJumps))]
	vxRunJump(j, vxElkInt("l"), vxElkInt("r"), "jump-int")
}

// the generic fused jumps on Int and Float operands
func VX_C08_jump_generic() {
	j := vxGenericJumps[vxSplit("op", len(vxGenericJumps))]
	var l, r value.Value
	switch vxSplit("kinds", 3) {
	case 0:
		l, r = value.SmallInt(vxInt64("l")).ToValue(), value.SmallInt(vxInt64("r")).ToValue()
	case 1:
		l, r = value.Float(vxFloat64("l")).ToValue(), value.Float(vxFloat64("r")).ToValue()
	default:
		l, r = value.SmallInt(vxInt64("l")).ToValue(), value.Float(vxFloat64("r")).ToValue()
	}
	vxRunJump(j, l, r, "jump-generic")
}
