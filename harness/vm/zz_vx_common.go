//go:build verif

package vm

import (
	"math"
	"math/big"
	"unsafe"

	"github.com/elk-language/elk/value"
)

// vxThread builds a thread whose value stack has n slots (last one the sentinel), built
// directly so that no pool, aborter or global state is involved.
func vxThread(n int) *Thread {
	stack := make([]value.Value, n)
	stack[n-1] = value.MakeSentinelValue()
	vm := &Thread{stack: stack}
	vm.sp = uintptr(unsafe.Pointer(&stack[0]))
	vm.fp = vm.sp
	return vm
}

func vxElkInt(name string) value.Value {
	if vxSplit(name+".rep", 2) == 0 {
		return value.SmallInt(vxInt64(name)).ToValue()
	}
	b := vxBig(name)
	vxAssume(!b.IsInt64())
	return value.Ref(value.ToElkBigInt(b))
}

func vxMath(v value.Value) (*big.Int, bool) {
	if v.IsSmallInt() {
		return big.NewInt(int64(v.AsSmallInt())), true
	}
	if v.IsReference() {
		if b, ok := v.AsReference().(*value.BigInt); ok {
			return new(big.Int).Set(b.ToGoBigInt()), true
		}
	}
	return new(big.Int), false
}

// vxSame: two results are the same Elk value (same kind and same content)
func vxSame(a, b value.Value) bool {
	if a.IsUndefined() || b.IsUndefined() {
		return a.IsUndefined() && b.IsUndefined()
	}
	A, okA := vxMath(a)
	B, okB := vxMath(b)
	if okA || okB {
		return okA && okB && A.Cmp(B) == 0 && a.IsSmallInt() == b.IsSmallInt()
	}
	if a.IsFloat() || b.IsFloat() {
		if !(a.IsFloat() && b.IsFloat()) {
			return false
		}
		x, y := float64(a.AsFloat()), float64(b.AsFloat())
		return math.Float64bits(x) == math.Float64bits(y) || (x != x && y != y)
	}
	if a.IsReference() || b.IsReference() {
		return false
	}
	return a == b
}

func vxErrClass(err value.Value) *value.Class {
	if err.IsUndefined() {
		return nil
	}
	return err.Class()
}
