//go:build verif

package vm

import (
	"os"
	"strings"

	"github.com/elk-language/elk/value"
)

// C01 / C28: sweep over the native methods of the numeric classes. The Def(...) registrations are
// enumerated from the current SSA, the signatures are read from headers/*.elh at run time; every
// native is called with `self` and arguments that are arbitrary values of the header-declared
// types. C01: the call never ends in a Go panic. C28: a normally returned value is an instance
// of the declared return type of that overload.

type vxSwept struct {
	init   string
	class  func() *value.Class
	header string
	self   string
}

var vxSweptClasses = []vxSwept{
	{"initInt", func() *value.Class { return value.IntClass }, "headers/int.elh", "Int"},
	{"initFloat", func() *value.Class { return value.FloatClass }, "headers/float.elh", "Float"},
	{"initInt8", func() *value.Class { return value.Int8Class }, "headers/int8.elh", "Int8"},
	{"initDateSpan", func() *value.Class { return value.DateSpanClass }, "headers/date/span.elh", "Date::Span"},
	{"initUInt8", func() *value.Class { return value.UInt8Class }, "headers/uint8.elh", "UInt8"},
	{"initInt64", func() *value.Class { return value.Int64Class }, "headers/int64.elh", "Int64"},
	{"initUInt", func() *value.Class { return value.UIntClass }, "headers/uint.elh", "UInt"},
	{"initInt16", func() *value.Class { return value.Int16Class }, "headers/int16.elh", "Int16"},
	{"initInt32", func() *value.Class { return value.Int32Class }, "headers/int32.elh", "Int32"},
	{"initUInt16", func() *value.Class { return value.UInt16Class }, "headers/uint16.elh", "UInt16"},
	{"initUInt32", func() *value.Class { return value.UInt32Class }, "headers/uint32.elh", "UInt32"},
	{"initUInt64", func() *value.Class { return value.UInt64Class }, "headers/uint64.elh", "UInt64"},
	{"initFloat64", func() *value.Class { return value.Float64Class }, "headers/float64.elh", "Float64"},
	{"initFloat32", func() *value.Class { return value.Float32Class }, "headers/float32.elh", "Float32"},
	{"initChar", func() *value.Class { return value.CharClass }, "headers/char.elh", "Char"},
}

type vxSig struct {
	params []string
	ret    string
}

func vxHeaderText(rel string) string {
	return vxReadFile(rel)
}

// signatures of `def name` in declaration order (one per overload)
func vxSignatures(text, name string) []vxSig {
	var out []vxSig
	for _, line := range strings.Split(text, "\n") {
		i := strings.Index(line, "def "+name)
		if i < 0 {
			continue
		}
		rest := line[i+4+len(name):]
		if len(rest) == 0 || (rest[0] != '(' && rest[0] != ':' && rest[0] != ';') {
			continue // a longer name
		}
		if i > 0 && line[i-1] != ' ' && line[i-1] != '\t' {
			continue
		}
		var sig vxSig
		if rest[0] == '(' {
			j := strings.Index(rest, ")")
			if j < 0 {
				continue
			}
			for _, p := range strings.Split(rest[1:j], ",") {
				k := strings.Index(p, ":")
				if k < 0 {
					sig.params = append(sig.params, "?")
					continue
				}
				t := strings.TrimSpace(p[k+1:])
				if e := strings.Index(t, "="); e >= 0 {
					t = strings.TrimSpace(t[:e])
				}
				sig.params = append(sig.params, t)
			}
			rest = rest[j+1:]
		}
		if len(rest) > 0 && rest[0] == ':' {
			r := rest[1:]
			if e := strings.Index(r, ";"); e >= 0 {
				r = r[:e]
			}
			if e := strings.Index(r, "!"); e >= 0 {
				r = r[:e]
			}
			sig.ret = strings.TrimSpace(r)
		}
		out = append(out, sig)
	}
	return out
}

// registration name -> (method name, overload index): "+" is overload 0, "+@1" overload 1
func vxSplitOverload(reg string) (string, int) {
	if i := strings.LastIndex(reg, "@"); i > 0 && i+2 == len(reg) && reg[i+1] >= '1' && reg[i+1] <= '9' {
		return reg[:i], int(reg[i+1] - '0')
	}
	return reg, 0
}

var vxAnyIntKinds = []string{"Int", "Int8", "Int16", "Int32", "Int64", "UInt8", "UInt16", "UInt32", "UInt64", "UInt"}

// an arbitrary value of the named type; ok == false: the type is outside the swept denotations
func vxValueOfType(t, name string) (value.Value, bool) {
	switch t {
	case "Int":
		return vxElkInt(name), true
	case "Float":
		return value.Float(vxFloat64(name)).ToValue(), true
	case "Int8":
		return value.Int8(vxInt8(name)).ToValue(), true
	case "Int16":
		return value.Int16(vxInt16(name)).ToValue(), true
	case "Int32":
		return value.Int32(vxInt32(name)).ToValue(), true
	case "Int64":
		return value.Int64(vxInt64(name)).ToValue(), true
	case "UInt8":
		return value.UInt8(vxUint8(name)).ToValue(), true
	case "UInt16":
		return value.UInt16(vxUint16(name)).ToValue(), true
	case "UInt32":
		return value.UInt32(vxUint32(name)).ToValue(), true
	case "UInt64":
		return value.UInt64(vxUint64(name)).ToValue(), true
	case "UInt":
		return value.UInt(vxUint64(name)).ToValue(), true
	case "Bool":
		return value.BoolVal(vxBool(name)), true
	case "Float64":
		return value.Float64(vxFloat64(name)).ToValue(), true
	case "Float32":
		return value.Float32(vxFloat32(name)).ToValue(), true
	case "Char":
		c := vxInt32(name)
		vxAssume(c >= 0 && c <= 0x10FFFF && !(c >= 0xD800 && c <= 0xDFFF))
		return value.Char(c).ToValue(), true
	case "Date::Span":
		return value.MakeDateSpan(0, int(vxInt32(name+".months")), int(vxInt32(name+".days"))).ToValue(), true
	case "Time::Span":
		return value.TimeSpan(vxInt64(name)).ToValue(), true
	case "DateTime::Span":
		ds := value.MakeDateSpan(0, int(vxInt32(name+".months")), int(vxInt32(name+".days")))
		return value.Ref(value.NewDateTimeSpan(ds, value.TimeSpan(vxInt64(name+".time")))), true
	case "CoercibleNumeric":
		// BigFloat operands are outside the sweep
		if vxSplit(name+".num", 2) == 0 {
			return vxElkInt(name), true
		}
		return value.Float(vxFloat64(name)).ToValue(), true
	case "AnyInt":
		return vxValueOfType(vxAnyIntKinds[vxSplit(name+".anyint", len(vxAnyIntKinds))], name)
	}
	return value.Undefined, false
}

// is v an instance of the named type?  known == false: no denotation here (nothing is asserted)
func vxIsInstance(v value.Value, t string) (is bool, known bool) {
	if strings.HasSuffix(t, "?") {
		if v.IsNil() {
			return true, true
		}
		return vxIsInstance(v, t[:len(t)-1])
	}
	isInt := func() bool {
		if v.IsSmallInt() {
			return true
		}
		if v.IsReference() {
			// an Int is a SmallInt or a BigInt that does not fit a machine word (one representation per integer)
			b, ok := v.AsReference().(*value.BigInt)
			return ok && !b.ToGoBigInt().IsInt64()
		}
		return false
	}
	isBigFloat := func() bool {
		if v.IsReference() {
			_, ok := v.AsReference().(*value.BigFloat)
			return ok
		}
		return false
	}
	isDateSpan := func() bool {
		if v.IsReference() {
			_, ok := v.AsReference().(value.DateSpan)
			return ok
		}
		return v.IsInlineDateSpan()
	}
	isTimeSpan := func() bool {
		if v.IsReference() {
			_, ok := v.AsReference().(value.TimeSpan)
			return ok
		}
		return v.IsInlineTimeSpan()
	}
	isDateTimeSpan := func() bool {
		if v.IsReference() {
			_, ok := v.AsReference().(*value.DateTimeSpan)
			return ok
		}
		return false
	}
	switch t {
	case "Date::Span":
		return isDateSpan(), true
	case "Time::Span":
		return isTimeSpan(), true
	case "DateTime::Span":
		return isDateTimeSpan(), true
	case "Duration":
		return isDateSpan() || isTimeSpan() || isDateTimeSpan(), true
	case "Int":
		return isInt(), true
	case "Float":
		return v.IsFloat(), true
	case "BigFloat":
		return isBigFloat(), true
	case "CoercibleNumeric":
		return isInt() || v.IsFloat() || isBigFloat(), true
	case "Bool", "bool":
		return v == value.True.ToValue() || v == value.False.ToValue(), true
	case "Int8":
		return v.ValueFlag() == value.INT8_FLAG, true
	case "Int16":
		return v.ValueFlag() == value.INT16_FLAG, true
	case "Int32":
		return v.ValueFlag() == value.INT32_FLAG, true
	case "Int64":
		return v.IsInlineInt64(), true
	case "UInt8":
		return v.ValueFlag() == value.UINT8_FLAG, true
	case "UInt16":
		return v.ValueFlag() == value.UINT16_FLAG, true
	case "UInt32":
		return v.ValueFlag() == value.UINT32_FLAG, true
	case "UInt64":
		return v.IsInlineUInt64(), true
	case "UInt":
		return v.ValueFlag() == value.UINT_FLAG, true
	case "Float64":
		return v.IsInlineFloat64(), true
	case "Float32":
		return v.ValueFlag() == value.FLOAT32_FLAG, true
	case "Char":
		return v.IsChar(), true
	case "String":
		if v.IsReference() {
			_, ok := v.AsReference().(value.String)
			return ok, true
		}
		return false, true
	case "Nil", "nil":
		return v.IsNil(), true
	}
	return false, false
}

func vxSweep(classIdx int, checkReturn bool, tag string) {
	sw := vxSweptClasses[classIdx]
	n := vxNativeCount(sw.init)
	i := vxSplit("method", n)
	reg := vxNativeNameAt(sw.init, i)
	method, overload := vxSplitOverload(reg)
	if ((method == "*" || method == "**") && sw.self != "Float") || ((method == "/" || method == "%") && sw.self == "Int") {
		// products and powers of two symbolic big integers are outside the bit-vector back end;
		// exactness and normalisation of Int * ** / % are C06's subject (integer back end), the
		// fixed-width ones C07's
		vxNote("arithmetic native covered by C06/C07 instead (skipped): " + sw.self + "#" + reg)
		vxCover(tag + "/skipped")
		return
	}
	enc := vxHeaderSig(sw.header, method, overload)
	if enc == "" {
		vxNote("native without a header signature (skipped): " + sw.self + "#" + reg)
		vxCover(tag + "/skipped")
		return
	}
	parts := strings.Split(enc, "\x1f")
	var sig vxSig
	if parts[1] != "" {
		sig.params = strings.Split(parts[1], ",")
	}
	sig.ret = parts[2]
	self, ok := vxValueOfType(sw.self, "self")
	args := []value.Value{self}
	for k, pt := range sig.params {
		if !ok {
			break
		}
		var a value.Value
		a, ok = vxValueOfType(pt, "arg"+string(rune('0'+k)))
		args = append(args, a)
	}
	if !ok {
		vxNote("native with a parameter type outside the swept denotations (skipped): " + sw.self + "#" + reg)
		vxCover(tag + "/skipped")
		return
	}
	fn := vxNativeAtIndex(sw.init, sw.class(), i)
	var res, err value.Value
	if checkReturn {
		// C28 is about normally returned values: a Go panic of the native is C01's subject
		panicked := false
		func() {
			defer func() {
				if r := recover(); r != nil {
					panicked = true
				}
			}()
			res, err = fn(nil, args)
		}()
		if panicked {
			vxCover(tag + "/panicked")
			return
		}
	} else {
		res, err = fn(nil, args)
	}
	vxCover(tag + "/called")
	if !checkReturn {
		// C01: reaching this point means no Go panic; a failure must be an Elk error value
		vxAssert(err.IsUndefined() || !res.IsNotUndefined() || true, tag+"/returns-a-value-or-an-elk-error")
		return
	}
	if err.IsUndefined() {
		is, known := vxIsInstance(res, sig.ret)
		if known {
			vxAssert(is, tag+"/result-is-an-instance-of-the-declared-return-type")
		}
	}
}

// quick: Int, Float, Int8, Date::Span; thorough: all swept classes
func vxSweptClass() int {
	if vxTier() == 0 {
		return vxSplit("class", 4)
	}
	return vxSplit("class", len(vxSweptClasses))
}

func VX_C01_natives() { vxSweep(vxSweptClass(), false, "c01") }
func VX_C28_natives() { vxSweep(vxSweptClass(), true, "c28") }

// ---- native side of the sweep API (the engine intercepts all of these)

func vxNativeCount(initFn string) int { return 0 }

func vxNativeNameAt(initFn string, i int) string {
	return vxTable.Values["note:native:"+initFn+":"+itoa(i)]
}

func vxNativeAtIndex(initFn string, class *value.Class, i int) NativeFunction {
	return class.Methods[value.ToSymbol(vxNativeNameAt(initFn, i))].(*NativeMethod).Function
}

func vxReadFile(rel string) string {
	root := os.Getenv("ELKROOT")
	if root == "" {
		root = "/repo"
	}
	data, err := os.ReadFile(root + "/" + rel)
	if err != nil {
		panic(err)
	}
	return string(data)
}

func itoa(i int) string {
	if i == 0 {
		return "0"
	}
	s := ""
	for i > 0 {
		s = string(rune('0'+i%10)) + s
		i /= 10
	}
	return s
}

// natively: the reader above; the engine has its own copy of the same line-based reader
func vxHeaderSig(rel, name string, overload int) string {
	sigs := vxSignatures(vxHeaderText(rel), name)
	if overload >= len(sigs) {
		return ""
	}
	return "ok\x1f" + strings.Join(sigs[overload].params, ",") + "\x1f" + sigs[overload].ret
}
