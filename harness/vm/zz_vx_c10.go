//go:build verif

package vm

import (
	"unsafe"

	"github.com/elk-language/elk/bytecode"
	"github.com/elk-language/elk/value"
	"github.com/elk-language/elk/value/symbol"
)

// C10 / C13: value-stack reallocation keeps every frame pointer, stack pointer and open upvalue
// at the same slot of the new stack; the open-upvalue list keeps its invariant under capture
// and close.

const vxSlots = 5

// a thread with a 4-slot stack (symbolic contents), symbolic sp/fp, two saved call frames and
// three open upvalues at symbolic slots: one held by a saved frame, one by the running closure,
// one reachable only through the open list (a closure that was created but is not running)
type vxStackState struct {
	vm      *Thread
	vals    [vxSlots]int64
	sp, fp  int
	cfp     [2]int
	uSlot   [3]int
	u       [3]*Upvalue
	closed  *Upvalue
	closedV int64
}

func vxStackThread() *vxStackState {
	st := &vxStackState{}
	stack := make([]value.Value, vxSlots)
	for i := 0; i < vxSlots-1; i++ {
		st.vals[i] = vxInt64("slot" + string(rune('0'+i)))
		stack[i] = value.SmallInt(st.vals[i]).ToValue()
	}
	stack[vxSlots-1] = value.MakeSentinelValue()
	vm := &Thread{stack: stack, callFrames: make([]CallFrame, 3)}
	base := uintptr(unsafe.Pointer(&stack[0]))
	MAX_VALUE_STACK_SIZE = 1 << 20 // package init() is not run by the engine; the limit is not the subject here
	// offsets stay symbolic: they only take part in address arithmetic
	st.sp = vxInt("sp")
	st.fp = vxInt("fp")
	vxAssume(0 <= st.fp && st.fp <= st.sp && st.sp < vxSlots)
	vm.sp = base + uintptr(st.sp)*value.ValueSize
	vm.fp = base + uintptr(st.fp)*value.ValueSize
	for i := 0; i < 2; i++ {
		st.cfp[i] = vxInt("cf" + string(rune('0'+i)) + ".fp")
		vxAssume(0 <= st.cfp[i] && st.cfp[i] <= st.fp)
		vm.callFrames[i].fp = base + uintptr(st.cfp[i])*value.ValueSize
	}
	vxAssume(st.cfp[0] <= st.cfp[1])
	vm.cfp = uintptr(unsafe.Pointer(&vm.callFrames[0])) + 2*CallFrameSize
	// open upvalues: strictly descending slots below sp, linked from the head
	for i := 0; i < 3; i++ {
		st.uSlot[i] = vxChoose("up"+string(rune('0'+i))+".slot", vxSlots-1)
		st.u[i] = NewUpvalue(&stack[st.uSlot[i]])
	}
	vxAssume(st.uSlot[0] > st.uSlot[1] && st.uSlot[1] > st.uSlot[2])
	st.u[0].next, st.u[1].next = st.u[1], st.u[2]
	vm.openUpvalueHead = st.u[0]
	st.closedV = vxInt64("closed")
	st.closed = NewClosedUpvalue(value.SmallInt(st.closedV).ToValue())
	vm.callFrames[0].upvalues = []*Upvalue{st.u[2], st.closed}
	vm.upvalues = []*Upvalue{st.closed, st.u[1]}
	// st.u[0] is reachable only from the open list
	st.vm = vm
	return st
}

func vxSlotIndex(vm *Thread, p uintptr) int {
	return int(p-uintptr(unsafe.Pointer(&vm.stack[0]))) / int(value.ValueSize)
}

func VX_C10_grow() {
	st := vxStackThread()
	vm := st.vm
	vm.growValueStack()
	vxAssert(len(vm.stack) == 2*vxSlots, "grow/size-doubles")
	if len(vm.stack) != 2*vxSlots {
		return
	}
	for i := 0; i < vxSlots-1; i++ {
		v := vm.stack[i]
		vxAssert(v.IsSmallInt() && int64(v.AsSmallInt()) == st.vals[i], "grow/contents-preserved")
	}
	vxAssert(vm.stack[2*vxSlots-1] == value.MakeSentinelValue(), "grow/sentinel-in-the-last-slot")
	vxAssert(vxSlotIndex(vm, vm.sp) == st.sp, "grow/sp-at-the-same-slot")
	vxAssert(vxSlotIndex(vm, vm.fp) == st.fp, "grow/fp-at-the-same-slot")
	for i := 0; i < 2; i++ {
		vxAssert(vm.callFrames[i].fp == uintptr(unsafe.Pointer(&vm.stack[0]))+uintptr(st.cfp[i])*value.ValueSize, "grow/saved-frame-pointers-at-the-same-slot")
	}
	vxAssert(st.u[2].slot == &vm.stack[st.uSlot[2]], "grow/open-upvalue-of-a-saved-frame-follows-the-stack")
	vxAssert(st.u[1].slot == &vm.stack[st.uSlot[1]], "grow/open-upvalue-of-the-running-closure-follows-the-stack")
	vxAssert(st.u[0].slot == &vm.stack[st.uSlot[0]], "grow/open-upvalue-reachable-only-from-the-open-list-follows-the-stack")
	vxAssert(st.closed.IsClosed() && int64(st.closed.Get().AsSmallInt()) == st.closedV, "grow/closed-upvalues-untouched")
	// a write through the stack is seen through the upvalue and vice versa (they alias the NEW stack)
	w := vxInt64("w")
	vm.stack[st.uSlot[0]] = value.SmallInt(w).ToValue()
	g := st.u[0].Get()
	vxAssert(g.IsSmallInt() && int64(g.AsSmallInt()) == w, "grow/upvalue-aliases-the-new-stack")
}

// the same upvalue object used by the running closure and by a saved frame (a closure that
// calls itself) is moved once, not twice
func VX_C10_grow_shared() {
	st := vxStackThread()
	vm := st.vm
	vm.callFrames[1].upvalues = []*Upvalue{st.u[1]}
	vm.growValueStack()
	vxAssert(len(vm.stack) == 2*vxSlots, "grow/size-doubles")
	if len(vm.stack) != 2*vxSlots {
		return
	}
	vxAssert(st.u[1].slot == &vm.stack[st.uSlot[1]], "grow/upvalue-shared-by-two-frames-follows-the-stack")
}

// ---------- C13

type vxOpenList struct {
	vm    *Thread
	vals  [vxSlots]int64
	n     int
	slots [3]int
	u     [3]*Upvalue
}

// an arbitrary open list satisfying the invariant I: strictly descending slots, all open
func vxOpenUpvalues() *vxOpenList {
	st := &vxOpenList{}
	stack := make([]value.Value, vxSlots)
	for i := 0; i < vxSlots; i++ {
		st.vals[i] = vxInt64("slot" + string(rune('0'+i)))
		stack[i] = value.SmallInt(st.vals[i]).ToValue()
	}
	vm := &Thread{stack: stack}
	vm.sp = uintptr(unsafe.Pointer(&stack[0])) + vxSlots*value.ValueSize
	vm.fp = uintptr(unsafe.Pointer(&stack[0]))
	st.n = vxSplit("open", 4)
	for i := 0; i < st.n; i++ {
		st.slots[i] = vxChoose("up"+string(rune('0'+i))+".slot", vxSlots)
		st.u[i] = NewUpvalue(&stack[st.slots[i]])
		if i > 0 {
			vxAssume(st.slots[i-1] > st.slots[i])
			st.u[i-1].next = st.u[i]
		}
	}
	if st.n > 0 {
		vm.openUpvalueHead = st.u[0]
	}
	st.vm = vm
	return st
}

// I on the current list: strictly descending stack slots, every element open
func vxListInvariant(vm *Thread) bool {
	prev := -1
	first := true
	n := 0
	for u := vm.openUpvalueHead; u != nil; u = u.next {
		n++
		if n > vxSlots+1 {
			return false // cycle
		}
		if u.IsClosed() {
			return false
		}
		idx := -1
		for k := 0; k < len(vm.stack); k++ {
			if u.slot == &vm.stack[k] {
				idx = k
			}
		}
		if idx < 0 {
			return false
		}
		if !first && idx >= prev {
			return false
		}
		prev, first = idx, false
	}
	return true
}

func vxListHas(vm *Thread, x *Upvalue) bool {
	n := 0
	for u := vm.openUpvalueHead; u != nil && n <= vxSlots+1; u = u.next {
		n++
		if u == x {
			return true
		}
	}
	return false
}

func VX_C13_capture() {
	st := vxOpenUpvalues()
	vm := st.vm
	s := vxChoose("capture.slot", vxSlots)
	var existing *Upvalue
	for i := 0; i < st.n; i++ {
		if st.slots[i] == s {
			existing = st.u[i]
		}
	}
	got := vm.captureUpvalue(&vm.stack[s])
	vxAssert(got != nil && got.slot == &vm.stack[s] && got.IsOpen(), "capture/upvalue-refers-to-the-variable")
	if existing != nil {
		vxAssert(got == existing, "capture/two-closures-share-one-upvalue-per-variable")
	}
	vxAssert(vxListInvariant(vm), "capture/open-list-invariant-preserved")
	vxAssert(vxListHas(vm, got), "capture/new-upvalue-is-on-the-open-list")
	for i := 0; i < st.n; i++ {
		vxAssert(vxListHas(vm, st.u[i]) && st.u[i].slot == &vm.stack[st.slots[i]], "capture/other-upvalues-untouched")
	}
	for i := 0; i < vxSlots; i++ {
		v := vm.stack[i]
		vxAssert(v.IsSmallInt() && int64(v.AsSmallInt()) == st.vals[i], "capture/stack-untouched")
	}
	// a variable, not a value, is captured: writes through the stack and through the upvalue agree
	w := vxInt64("w")
	vm.stack[s] = value.SmallInt(w).ToValue()
	g := got.Get()
	vxAssert(g.IsSmallInt() && int64(g.AsSmallInt()) == w, "capture/reads-see-later-writes-to-the-variable")
	got.Set(value.SmallInt(w + 1).ToValue())
	vxAssert(vm.stack[s].IsSmallInt() && int64(vm.stack[s].AsSmallInt()) == w+1, "capture/writes-through-the-upvalue-reach-the-variable")
}

func VX_C13_close() {
	st := vxOpenUpvalues()
	vm := st.vm
	last := vxChoose("last", vxSlots+1) // close every upvalue at slot >= last (last == vxSlots: none)
	vm.opCloseUpvalues(uintptr(unsafe.Pointer(&vm.stack[0])) + uintptr(last)*value.ValueSize)
	vxAssert(vxListInvariant(vm), "close/open-list-invariant-preserved")
	for i := 0; i < st.n; i++ {
		u := st.u[i]
		if st.slots[i] >= last {
			vxAssert(u.IsClosed(), "close/upvalues-at-or-above-the-slot-are-closed")
			g := u.Get()
			vxAssert(g.IsSmallInt() && int64(g.AsSmallInt()) == st.vals[st.slots[i]], "close/closed-upvalue-keeps-the-variable's-value")
			vxAssert(!vxListHas(vm, u), "close/closed-upvalues-leave-the-open-list")
			// it no longer aliases the stack slot (which the next call reuses)
			vm.stack[st.slots[i]] = value.SmallInt(st.vals[st.slots[i]] + 1).ToValue()
			g2 := u.Get()
			vxAssert(g2.IsSmallInt() && int64(g2.AsSmallInt()) == st.vals[st.slots[i]], "close/closed-upvalue-no-longer-aliases-the-stack")
		} else {
			vxAssert(u.IsOpen() && u.slot == &vm.stack[st.slots[i]] && vxListHas(vm, u), "close/upvalues-below-the-slot-stay-open")
		}
	}
}

// two closures sharing a variable still share it after the variable's scope ends
func VX_C13_shared_after_close() {
	st := vxOpenUpvalues()
	vm := st.vm
	s := vxChoose("capture.slot", vxSlots)
	a := vm.captureUpvalue(&vm.stack[s])
	b := vm.captureUpvalue(&vm.stack[s])
	vxAssert(a == b, "shared/one-upvalue-per-variable")
	vm.opCloseUpvalues(uintptr(unsafe.Pointer(&vm.stack[s])))
	w := vxInt64("w")
	a.Set(value.SmallInt(w).ToValue())
	g := b.Get()
	vxAssert(g.IsSmallInt() && int64(g.AsSmallInt()) == w, "shared/write-by-one-closure-is-read-by-the-other-after-close")
}

// ---------- a reallocation in the middle of an instruction that re-enters the run loop

// for .. in over a user-defined iterator: NEXT calls the iterator's bytecode `next`, whose body
// makes a further bytecode call that crosses the 70% fill mark and reallocates the value stack.
// The result of `next` must replace the iterator on top of the (new) stack.
func VX_C10_next_across_growth() {
	MAX_VALUE_STACK_SIZE = 1 << 20
	x := vxInt64("x")
	helper := &BytecodeFunction{Instructions: []byte{byte(bytecode.GET_LOCAL_1), byte(bytecode.RETURN)}, parameterCount: 1}
	nextFn := &BytecodeFunction{
		Instructions: []byte{byte(bytecode.SELF), byte(bytecode.LOAD_VALUE_1), byte(bytecode.CALL_METHOD_BC8), 0, byte(bytecode.RETURN)},
		Values:       []value.Value{value.Ref(NewBytecodeCallSiteInfo(helper, 1, false)), value.SmallInt(x).ToValue()},
	}
	class := value.NewClass()
	iter := value.NewObject(value.ObjectWithClass(class))
	site := &CallSiteInfo{Name: value.ToSymbol("next"), ArgumentCount: 0}
	site.Cache[0] = CallCacheEntry{Class: class, Method: nextFn}
	fn := &BytecodeFunction{
		Instructions: []byte{byte(bytecode.GET_LOCAL_1), byte(bytecode.NEXT8), 0, byte(bytecode.RETURN)},
		Values:       []value.Value{value.Ref(site)},
		parameterCount: 1,
	}
	slots := 7 + vxSplit("slots", 3) // 7: the nested call reallocates; 9: it does not
	vm := vxThread(slots)
	vm.callFrames = make([]CallFrame, 6)
	vm.cfpSet(&vm.callFrames[0])
	vm.bytecode = fn
	vm.ipSet(&fn.Instructions[0])
	vm.push(value.Nil)
	vm.push(value.Ref(iter))
	vm.localCount = 2
	before := len(vm.stack)
	vm.run()
	vxAssert(vm.state != errorState, "next-across-growth/no-error")
	got := vm.peek()
	vxAssert(got.IsSmallInt() && int64(got.AsSmallInt()) == x, "next-across-growth/the-loop-variable-gets-the-value-next-returned")
	if slots == 7 {
		vxAssert(len(vm.stack) > before, "next-across-growth/the-scenario-reallocates")
	}
}

// instantiation of a class with a bytecode initialiser: INSTANTIATE replaces the class on the
// stack by the new instance and calls `#init`; when that call reallocates the value stack the
// initialiser must still run on the instance and the expression must evaluate to the instance
func VX_C10_instantiate_across_growth() {
	MAX_VALUE_STACK_SIZE = 1 << 20
	class := value.NewClass()
	initFn := &BytecodeFunction{Instructions: []byte{byte(bytecode.RETURN_SELF)}}
	class.Methods[symbol.S_init] = initFn
	fn := &BytecodeFunction{
		Instructions:   []byte{byte(bytecode.GET_LOCAL_1), byte(bytecode.INSTANTIATE8), 0, byte(bytecode.RETURN)},
		parameterCount: 3,
	}
	slots := 7 + vxSplit("slots", 3) // 7: the initialiser call reallocates; 9: it does not
	vm := vxThread(slots)
	vm.callFrames = make([]CallFrame, 6)
	vm.cfpSet(&vm.callFrames[0])
	vm.bytecode = fn
	vm.ipSet(&fn.Instructions[0])
	vm.push(value.Nil)
	vm.push(value.Ref(class))
	vm.push(value.SmallInt(vxInt64("a")).ToValue())
	vm.push(value.SmallInt(vxInt64("b")).ToValue())
	vm.localCount = 4
	before := len(vm.stack)
	vm.run()
	vxAssert(vm.state != errorState, "instantiate-across-growth/no-error")
	got := vm.peek()
	obj, ok := got.SafeAsReference().(*value.Object)
	vxAssert(ok && obj.DirectClass() == class, "instantiate-across-growth/evaluates-to-an-instance-of-the-class")
	if slots == 7 {
		vxAssert(len(vm.stack) > before, "instantiate-across-growth/the-scenario-reallocates")
	}
}
