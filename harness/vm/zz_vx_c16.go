//go:build verif

package vm

import (
	"github.com/elk-language/elk/bytecode"
	"github.com/elk-language/elk/value"
)

// C16: the await / resolve / continuation protocol on the REAL thread pool worker loop, promise
// code and run loop (AWAIT, AWAIT_RESULT, RETURN), with micro-bytecode task bodies; the schedule
// of workers, the resolver and the submitting thread is a solver decision at every visible
// operation (promise mutex, wait group, task queue).

// a pool of `workers` real worker loops over a task queue of capacity `queue`
func vxPool(workers, queue int) *ThreadPool {
	if vxTier() == 0 {
		vxPreemptionBound(2)
	} else {
		vxPreemptionBound(3)
	}
	tp := &ThreadPool{TaskQueue: make(chan *Promise, queue)}
	for i := 0; i < workers; i++ {
		th := vxThread(12)
		th.callFrames = make([]CallFrame, 4)
		th.cfpSet(&th.callFrames[0])
		th.threadPool = tp
		tp.Threads = append(tp.Threads, th)
		vxGo(func() { threadWorker(th, tp.TaskQueue) })
	}
	return tp
}

// a task whose body awaits the given promise and returns its result
func vxAwaitTask(tp *ThreadPool, awaited *Promise) *Promise {
	fn := &BytecodeFunction{Instructions: []byte{
		byte(bytecode.GET_LOCAL_1), byte(bytecode.AWAIT), byte(bytecode.AWAIT_RESULT), byte(bytecode.RETURN),
	}, parameterCount: 1}
	return NewBytecodePromise(tp, fn, value.Nil, value.Ref(awaited))
}

// a task that returns a constant without awaiting
func vxLeafTask(tp *ThreadPool) *Promise {
	fn := &BytecodeFunction{Instructions: []byte{byte(bytecode.INT_3), byte(bytecode.RETURN)}}
	return NewBytecodePromise(tp, fn, value.Nil)
}

func vxIs(v value.Value, n int64) bool { return v.IsSmallInt() && int64(v.AsSmallInt()) == n }

// one task awaits a promise that another thread resolves at an arbitrary moment: the task is
// resumed exactly once and completes with the resolved value (no lost wake-up, no deadlock)
func VX_C16_await_external() {
	workers := 1 + vxSplit("workers", 2)
	tp := vxPool(workers, 1)
	e := NewExternalPromise(tp)
	x := vxInt64("x")
	a := vxAwaitTask(tp, e)
	vxGo(func() { e.Resolve(value.SmallInt(x).ToValue()) })
	res, _, err := a.AwaitSync()
	vxAssert(err.IsUndefined() && vxIs(res, x), "await-external/task-completes-with-the-awaited-value")
	vxAssert(a.IsResolved() && a.continuations == nil, "await-external/settled-once")
	tp.Close()
	vxJoin()
}

// the awaited promise is rejected: the awaiting task is rejected with the same error
func VX_C16_await_rejected() {
	tp := vxPool(1, 1)
	e := NewExternalPromise(tp)
	a := vxAwaitTask(tp, e)
	vxGo(func() { e.Reject(value.SmallInt(7).ToValue(), nil) })
	_, _, err := a.AwaitSync()
	vxAssert(vxIs(err, 7), "await-rejected/task-is-rejected-with-the-awaited-error")
	tp.Close()
	vxJoin()
}

// a task awaits another task of the same pool (the resolver is a worker)
func VX_C16_await_task() {
	workers := 1 + vxSplit("workers", 2)
	tp := vxPool(workers, 1+vxSplit("queue", 2))
	b := vxLeafTask(tp)
	a := vxAwaitTask(tp, b)
	res, _, err := a.AwaitSync()
	vxAssert(err.IsUndefined() && vxIs(res, 3), "await-task/task-completes-with-the-awaited-value")
	tp.Close()
	vxJoin()
}

// two tasks await the same task: both are resumed, each exactly once
func VX_C16_two_awaiters() {
	workers := 1 + vxSplit("workers", 2)
	tp := vxPool(workers, 1+vxSplit("queue", 2))
	b := vxLeafTask(tp)
	a1 := vxAwaitTask(tp, b)
	a2 := vxAwaitTask(tp, b)
	r1, _, e1 := a1.AwaitSync()
	r2, _, e2 := a2.AwaitSync()
	vxAssert(e1.IsUndefined() && vxIs(r1, 3) && e2.IsUndefined() && vxIs(r2, 3), "two-awaiters/both-complete-with-the-awaited-value")
	tp.Close()
	vxJoin()
}
