//go:build verif

package vm

import "github.com/elk-language/elk/value"

// C17, hash sets: one operation from an arbitrary valid table state refines a finite set.

func vxHashSet(name string, c int) *HashSetOfValue {
	vxSplitIndex()
	vxHashBits(16)
	h := NewHashSetOfValue(c)
	for i := 0; i < c; i++ {
		n := name + string(rune('0'+i))
		switch vxChoose(n+".state", 3) {
		case vxTomb:
			h.table[i] = DeletedHashSetValue
			h.occupiedSlots++
		case vxLive:
			k := vxKey(n + ".key")
			if c > 1 {
				vxAssume(int(vxKeyHash(k)%uint64(c)) == vxChoose(n+".home", c))
			}
			h.table[i] = value.SmallInt(k).ToValue()
			h.occupiedSlots++
			h.elements++
		}
	}
	vxAssume(vxSetInvariant(h))
	return h
}

func vxSlotLive(e value.Value) bool { return !e.IsUndefined() && e != DeletedHashSetValue }

func vxSetInvariant(h *HashSetOfValue) bool {
	c := h.Capacity()
	live, occupied := 0, 0
	for i := 0; i < c; i++ {
		e := h.table[i]
		if e.IsUndefined() {
			continue
		}
		occupied++
		if e == DeletedHashSetValue {
			continue
		}
		live++
		if !e.IsSmallInt() {
			return false
		}
		for j := 0; j < i; j++ {
			o := h.table[j]
			if vxSlotLive(o) && o.AsSmallInt() == e.AsSmallInt() {
				return false
			}
		}
		hash, _ := Hash(nil, e)
		p := int(hash % value.UInt64(c))
		for p != i {
			if h.table[p].IsUndefined() {
				return false
			}
			p++
			if p == c {
				p = 0
			}
		}
	}
	return h.elements == live && h.occupiedSlots == occupied
}

func vxSetHas(h *HashSetOfValue, k int64) bool {
	found := false
	for i := 0; i < h.Capacity(); i++ {
		e := h.table[i]
		if vxSlotLive(e) && e.IsSmallInt() {
			if int64(e.AsSmallInt()) == k {
				found = true
			}
		}
	}
	return found
}

func VX_C17_hs_contains() {
	h := vxHashSet("s", vxCapLookup())
	q := vxKey("q")
	want := vxSetHas(h, q)
	got, err := HashSetOfValueContains(nil, h, value.SmallInt(q).ToValue())
	vxAssert(err.IsUndefined(), "hs-contains/no-error")
	vxAssert(got == want, "hs-contains/agrees-with-set")
	vxAssert(h.Length() == h.elements, "hs-length")
}

func VX_C17_hs_append() {
	h := vxHashSet("s", vxCap())
	q, probe := vxKey("q"), vxKey("probe")
	oldLen := h.Length()
	qPresent := vxSetHas(h, q)
	pPresent := vxSetHas(h, probe)
	added, err := HashSetOfValueAppend(nil, h, value.SmallInt(q).ToValue())
	vxAssert(err.IsUndefined(), "hs-append/no-error")
	vxAssert(added == !qPresent, "hs-append/reports-new")
	vxAssert(vxSetInvariant(h), "hs-append/invariant-preserved")
	if probe == q {
		vxAssert(vxSetHas(h, probe), "hs-append/element-present")
	} else {
		vxAssert(vxSetHas(h, probe) == pPresent, "hs-append/others-unchanged")
	}
	want := oldLen
	if !qPresent {
		want++
	}
	vxAssert(h.Length() == want, "hs-append/length")
}

func VX_C17_hs_delete() {
	h := vxHashSet("s", vxCapLookup())
	q, probe := vxKey("q"), vxKey("probe")
	oldLen := h.Length()
	qPresent := vxSetHas(h, q)
	pPresent := vxSetHas(h, probe)
	removed, err := HashSetOfValueDelete(nil, h, value.SmallInt(q).ToValue())
	vxAssert(err.IsUndefined(), "hs-delete/no-error")
	vxAssert(removed == qPresent, "hs-delete/reports-presence")
	vxAssert(vxSetInvariant(h), "hs-delete/invariant-preserved")
	if probe == q {
		vxAssert(!vxSetHas(h, probe), "hs-delete/element-gone")
	} else {
		vxAssert(vxSetHas(h, probe) == pPresent, "hs-delete/others-unchanged")
	}
	want := oldLen
	if qPresent {
		want--
	}
	vxAssert(h.Length() == want, "hs-delete/length")
}

func VX_C17_hs_resize() {
	h := vxHashSet("s", vxCap())
	probe := vxKey("probe")
	pPresent := vxSetHas(h, probe)
	oldLen := h.Length()
	newCap := h.Length() + vxSplit("extra", 3)
	if newCap == 0 {
		newCap = 1
	}
	err := HashSetOfValueSetCapacity(nil, h, newCap)
	vxAssert(err.IsUndefined(), "hs-resize/no-error")
	vxAssert(vxSetInvariant(h), "hs-resize/invariant-preserved")
	vxAssert(vxSetHas(h, probe) == pPresent, "hs-resize/set-unchanged")
	vxAssert(h.Length() == oldLen, "hs-resize/length")
}

func vxDistinctUnion(x, y *HashSetOfValue) int {
	n := y.Length()
	for i := 0; i < x.Capacity(); i++ {
		e := x.table[i]
		if vxSlotLive(e) && !vxSetHas(y, int64(e.AsSmallInt())) {
			n++
		}
	}
	return n
}

func VX_C17_hs_union() {
	x := vxHashSet("x", 1+vxSplit("capx", 2))
	y := vxHashSet("y", vxCap2())
	probe := vxKey("probe")
	want := vxSetHas(x, probe) || vxSetHas(y, probe)
	distinct := vxDistinctUnion(x, y)
	r, err := HashSetOfValueUnion(nil, x, y)
	vxAssert(err.IsUndefined(), "hs-union/no-error")
	vxAssert(vxSetHas(r, probe) == want, "hs-union/membership")
	vxAssert(r.Length() == distinct, "hs-union/length-is-number-of-distinct-elements")
	vxAssert(vxSetInvariant(r), "hs-union/invariant")
	// the union is a NEW set: changing it later does not change an operand
	vxAssert(r != x && r != y, "hs-union/result-is-a-new-set")
	xp, yp := vxSetHas(x, probe), vxSetHas(y, probe)
	for i := range r.table {
		r.table[i] = DeletedHashSetValue // overwrite the result's storage
	}
	vxAssert(vxSetHas(x, probe) == xp && vxSetHas(y, probe) == yp, "hs-union/operands-independent-of-later-changes-to-the-result")
}

// target.copy(source) into a target that already has elements (what Copy is for)
func VX_C17_hs_copy() {
	x := vxHashSet("x", 1+vxSplit("capx", 2))
	y := vxHashSet("y", vxCap2())
	probe := vxKey("probe")
	want := vxSetHas(x, probe) || vxSetHas(y, probe)
	distinct := vxDistinctUnion(x, y)
	err := HashSetOfValueCopy(nil, x, y)
	vxAssert(err.IsUndefined(), "hs-copy/no-error")
	vxAssert(vxSetHas(x, probe) == want, "hs-copy/membership")
	vxAssert(x.Length() == distinct, "hs-copy/length-is-number-of-distinct-elements")
	vxAssert(vxSetInvariant(x), "hs-copy/invariant")
}

func VX_C17_hs_intersection() {
	x := vxHashSet("x", 1+vxSplit("capx", 2))
	y := vxHashSet("y", vxCap2())
	probe := vxKey("probe")
	want := vxSetHas(x, probe) && vxSetHas(y, probe)
	r, err := HashSetOfValueIntersection(nil, x, y)
	vxAssert(err.IsUndefined(), "hs-intersection/no-error")
	vxAssert(vxSetHas(r, probe) == want, "hs-intersection/membership")
	vxAssert(vxSetInvariant(r), "hs-intersection/invariant")
}

func VX_C17_hs_equal() {
	x := vxHashSet("x", 1+vxSplit("capx", 2))
	y := vxHashSet("y", vxCap2())
	// set equality: same length and every element of x in y (the model, evaluated on the tables)
	same := x.Length() == y.Length()
	for i := 0; i < x.Capacity(); i++ {
		e := x.table[i]
		if vxSlotLive(e) && !vxSetHas(y, int64(e.AsSmallInt())) {
			same = false
		}
	}
	got, err := HashSetOfValueEqual(nil, x, y)
	vxAssert(err.IsUndefined(), "hs-equal/no-error")
	vxAssert(got == same, "hs-equal/agrees-with-set-equality")
}

// iteration visits every live element exactly once and nothing else
func VX_C17_hs_iter() {
	h := vxHashSet("s", vxCapLookup())
	probe := vxKey("probe")
	it := NewHashSetOfValueIterator(h)
	seen, count := 0, 0
	for i := 0; i <= h.Capacity(); i++ {
		v, err := it.NextValue()
		if !err.IsUndefined() {
			break
		}
		count++
		vxAssert(v.IsSmallInt(), "hs-iter/yields-only-elements")
		if v.IsSmallInt() && int64(v.AsSmallInt()) == probe {
			seen++
		}
	}
	vxAssert(count == h.Length(), "hs-iter/yields-length-many")
	want := 0
	if vxSetHas(h, probe) {
		want = 1
	}
	vxAssert(seen == want, "hs-iter/each-element-once")
}
