//go:build verif

package vm

import (
	"unsafe"

	"github.com/elk-language/elk/bytecode"
	"github.com/elk-language/elk/position"
	"github.com/elk-language/elk/value"
)

// C32 (frames): every frame of a stack trace names its function and the line of the
// instruction that was executing (the byte before the frame's instruction pointer);
// frames appear outermost first, the current function last.

const vxCodeLen = 6

// a function of vxCodeLen instruction bytes whose line table is an arbitrary well-formed
// run-length list (<= 3 entries) covering exactly those bytes
func vxFunc(tag string, full bool) (*BytecodeFunction, [vxCodeLen]int) {
	var flat [vxCodeLen]int
	n := 1
	if full {
		n = 1 + vxChoose(tag+".entries", 3)
	}
	var list bytecode.LineInfoList
	pos := 0
	for e := 0; e < n; e++ {
		line := vxInt(tag + ".line" + string(rune('0'+e)))
		cnt := vxCodeLen - pos
		if e < n-1 {
			cnt = 1 + vxChoose(tag+".cnt"+string(rune('0'+e)), vxCodeLen-pos-(n-1-e))
		}
		list = append(list, bytecode.NewLineInfo(line, cnt))
		for k := 0; k < cnt; k++ {
			flat[pos+k] = line
		}
		pos += cnt
	}
	f := &BytecodeFunction{
		Instructions: make([]byte, vxCodeLen),
		LineInfoList: list,
		Location:     position.NewLocation("/tmp/"+tag+".elk", position.ZeroSpan),
		name:         value.ToSymbol(tag),
	}
	return f, flat
}

func vxAt(flat [vxCodeLen]int, i int) int {
	for k := 0; k < vxCodeLen; k++ {
		if k == i {
			return flat[k]
		}
	}
	return -1
}

func VX_C32_frames() {
	depth := vxSplit("callers", 3) // 0..2 suspended callers below the running function
	// the frames are looked up independently: one frame at a time gets an arbitrary line table and
	// an arbitrary instruction pointer, the others a one-entry table (arbitrary line) and a fixed ip
	focus := vxSplit("focus", 3)
	if focus > depth {
		return
	}
	vm := &Thread{callFrames: make([]CallFrame, 4)}
	var fns [3]*BytecodeFunction
	var flats [3][vxCodeLen]int
	var ips [3]int
	tags := [3]string{"f0", "f1", "f2"}
	for i := 0; i <= depth; i++ {
		fns[i], flats[i] = vxFunc(tags[i], i == focus)
		ips[i] = 1 + i
		if i == focus {
			ips[i] = vxInt(tags[i] + ".ip")
			// the instruction pointer sits just past an instruction: 1..len
			vxAssume(ips[i] >= 1 && ips[i] <= vxCodeLen)
		}
	}
	for i := 0; i < depth; i++ {
		vm.callFrames[i] = CallFrame{
			bytecode: fns[i],
			ip:       uintptr(unsafe.Pointer(&fns[i].Instructions[0])) + uintptr(ips[i]),
		}
	}
	vm.cfp = uintptr(unsafe.Pointer(&vm.callFrames[0])) + uintptr(depth)*CallFrameSize
	vm.bytecode = fns[depth]
	vm.ip = uintptr(unsafe.Pointer(&fns[depth].Instructions[0])) + uintptr(ips[depth])

	st := vm.BuildStackTrace()
	vxAssert(len(*st) == depth+1, "trace/one-entry-per-frame")
	if len(*st) != depth+1 {
		return
	}
	for i := 0; i <= depth; i++ {
		fr := (*st)[i]
		vxAssert(fr.FuncName == tags[i], "trace/frames-in-call-order")
		vxAssert(fr.LineNumber == vxAt(flats[i], ips[i]-1), "trace/line-of-the-executing-instruction")
	}
	// the suspended frames report the same through the CallFrame API
	for i := 0; i < depth; i++ {
		vxAssert(vm.callFrames[i].LineNumber() == vxAt(flats[i], ips[i]-1), "callframe/line-number")
	}
	// prepending keeps the order: own frames first, then the awaited trace
	base := value.StackTrace{value.CallFrame{FuncName: "awaited", LineNumber: 7}}
	st2 := vm.BuildStackTracePrepend(&base)
	vxAssert(len(*st2) == depth+2, "prepend/length")
	if len(*st2) == depth+2 {
		vxAssert((*st2)[depth+1].FuncName == "awaited" && (*st2)[depth+1].LineNumber == 7, "prepend/base-last")
		vxAssert((*st2)[depth].LineNumber == vxAt(flats[depth], ips[depth]-1), "prepend/current-frame-line")
	}
}
