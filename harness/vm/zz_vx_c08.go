//go:build verif

package vm

import "github.com/elk-language/elk/value"

// C08: a typed opcode computes what the generic opcode, the value-level operator and
// the `...Ints` helpers compute, for every operand the operator's header admits.

type vxBinOp struct {
	typed   func(vm *Thread) value.Value // returns the error (Undefined if the opcode has none)
	generic func(vm *Thread) value.Value
	val     func(l, r value.Value) (value.Value, value.Value)
}

func noErr(f func()) value.Value { f(); return value.Undefined }

func vxIntOps(vm *Thread) []vxBinOp {
	b := func(f func(l, r value.Value) value.Value) func(l, r value.Value) (value.Value, value.Value) {
		return func(l, r value.Value) (value.Value, value.Value) { return f(l, r), value.Undefined }
	}
	return []vxBinOp{
		{func(vm *Thread) value.Value { return noErr(vm.opAddInt) }, (*Thread).opAdd, value.AddVal},
		{func(vm *Thread) value.Value { return noErr(vm.opSubtractInt) }, (*Thread).opSubtract, value.SubtractVal},
		{func(vm *Thread) value.Value { return noErr(vm.opMultiplyInt) }, (*Thread).opMultiply, value.MultiplyVal},
		{(*Thread).opDivideInt, (*Thread).opDivide, value.DivideVal},
		{(*Thread).opModuloInt, (*Thread).opModulo, value.ModuloVal},
		{func(vm *Thread) value.Value { return noErr(vm.opLessThanInt) }, (*Thread).opLessThan, value.LessThanVal},
		{func(vm *Thread) value.Value { return noErr(vm.opLessThanEqualInt) }, (*Thread).opLessThanEqual, value.LessThanEqualVal},
		{func(vm *Thread) value.Value { return noErr(vm.opGreaterThanInt) }, (*Thread).opGreaterThan, value.GreaterThanVal},
		{func(vm *Thread) value.Value { return noErr(vm.opGreaterThanEqualInt) }, (*Thread).opGreaterThanEqual, value.GreaterThanEqualVal},
		{func(vm *Thread) value.Value { return noErr(vm.opEqualInt) }, (*Thread).opEqual, b(value.EqualVal)},
		{func(vm *Thread) value.Value { return noErr(vm.opNotEqualInt) }, (*Thread).opNotEqual, b(value.NotEqualVal)},
	}
}

func vxRunBin(op vxBinOp, l, r value.Value, id string) {
	vmT := vxThread(8)
	vmT.push(l)
	vmT.push(r)
	errT := op.typed(vmT)
	vmG := vxThread(8)
	vmG.push(l)
	vmG.push(r)
	errG := op.generic(vmG)
	want, errV := op.val(l, r)
	vxAssert(vxErrClass(errT) == vxErrClass(errV), id+"/typed-error-equals-value-level")
	vxAssert(vxErrClass(errG) == vxErrClass(errV), id+"/generic-error-equals-value-level")
	if errV.IsUndefined() {
		vxAssert(vxSame(vmT.peek(), want), id+"/typed-result-equals-value-level")
		vxAssert(vxSame(vmG.peek(), want), id+"/generic-result-equals-value-level")
		vxAssert(vmT.spOffset() == 1 && vmG.spOffset() == 1, id+"/stack-depth")
	}
}

// Int opcodes with Int right operands: exact arithmetic (integer back end)
func VX_C08_int_int() {
	vxMode("int")
	ops := vxIntOps(nil)
	i := vxSplit("op", len(ops))
	l, r := vxElkInt("l"), vxElkInt("r")
	vxRunBin(ops[i], l, r, "int-int")
}

// Int opcodes with a Float right operand (CoercibleNumeric admits it)
func VX_C08_int_float() {
	ops := vxIntOps(nil)
	i := vxSplit("op", len(ops))
	l := vxElkInt("l")
	r := value.Float(vxFloat64("r")).ToValue()
	vxRunBin(ops[i], l, r, "int-float")
}

func vxFloatOps() []vxBinOp {
	b := func(f func(l, r value.Value) value.Value) func(l, r value.Value) (value.Value, value.Value) {
		return func(l, r value.Value) (value.Value, value.Value) { return f(l, r), value.Undefined }
	}
	return []vxBinOp{
		{func(vm *Thread) value.Value { return noErr(vm.opAddFloat) }, (*Thread).opAdd, value.AddVal},
		{func(vm *Thread) value.Value { return noErr(vm.opSubtractFloat) }, (*Thread).opSubtract, value.SubtractVal},
		{func(vm *Thread) value.Value { return noErr(vm.opMultiplyFloat) }, (*Thread).opMultiply, value.MultiplyVal},
		{func(vm *Thread) value.Value { return noErr(vm.opDivideFloat) }, (*Thread).opDivide, value.DivideVal},
		{func(vm *Thread) value.Value { return noErr(vm.opLessThanFloat) }, (*Thread).opLessThan, value.LessThanVal},
		{func(vm *Thread) value.Value { return noErr(vm.opLessThanEqualFloat) }, (*Thread).opLessThanEqual, value.LessThanEqualVal},
		{func(vm *Thread) value.Value { return noErr(vm.opGreaterThanFloat) }, (*Thread).opGreaterThan, value.GreaterThanVal},
		{func(vm *Thread) value.Value { return noErr(vm.opGreaterThanEqualFloat) }, (*Thread).opGreaterThanEqual, value.GreaterThanEqualVal},
		{func(vm *Thread) value.Value { return noErr(vm.opEqualFloat) }, (*Thread).opEqual, b(value.EqualVal)},
		{func(vm *Thread) value.Value { return noErr(vm.opNotEqualFloat) }, (*Thread).opNotEqual, b(value.NotEqualVal)},
	}
}

func VX_C08_float() {
	ops := vxFloatOps()
	i := vxSplit("op", len(ops))
	l := value.Float(vxFloat64("l")).ToValue()
	var r value.Value
	if vxSplit("right", 2) == 0 {
		r = value.Float(vxFloat64("r")).ToValue()
	} else {
		r = vxElkInt("r")
	}
	vxRunBin(ops[i], l, r, "float")
}

// unary typed opcodes
func VX_C08_unary() {
	vxMode("int")
	a := vxElkInt("a")
	switch vxSplit("op", 3) {
	case 0:
		vm := vxThread(4)
		vm.push(a)
		vm.opNegateInt()
		vxAssert(vxSame(vm.peek(), value.NegateVal(a)), "neg/typed-equals-value-level")
	case 1:
		vm := vxThread(4)
		vm.push(a)
		vm.opIncrementInt()
		vxAssert(vxSame(vm.peek(), value.IncrementVal(a)), "inc/typed-equals-value-level")
	case 2:
		vm := vxThread(4)
		vm.push(a)
		vm.opDecrementInt()
		vxAssert(vxSame(vm.peek(), value.DecrementVal(a)), "dec/typed-equals-value-level")
	}
}

// bitwise and shift typed opcodes (bit-vector back end)
func VX_C08_int_bits() {
	l, r := vxElkInt("l"), vxElkInt("r")
	ops := []vxBinOp{
		{func(vm *Thread) value.Value { return noErr(vm.opBitwiseAndInt) }, (*Thread).opBitwiseAnd, value.BitwiseAndVal},
		{func(vm *Thread) value.Value { return noErr(vm.opBitwiseOrInt) }, (*Thread).opBitwiseOr, value.BitwiseOrVal},
		{func(vm *Thread) value.Value { return noErr(vm.opBitwiseXorInt) }, (*Thread).opBitwiseXor, value.BitwiseXorVal},
		{func(vm *Thread) value.Value { return noErr(vm.opLeftBitshiftInt) }, (*Thread).opLeftBitshift, value.LeftBitshiftVal},
		{func(vm *Thread) value.Value { return noErr(vm.opRightBitshiftInt) }, (*Thread).opRightBitshift, value.RightBitshiftVal},
	}
	i := vxSplit("op", len(ops))
	vxRunBin(ops[i], l, r, "int-bits")
}
