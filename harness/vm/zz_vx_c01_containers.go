//go:build verif

package vm

// C01 (no Go panic reaches the host) for the container kernels behind the HashSet / HashMap
// natives: one mutation step from an arbitrary valid table (the C17 harnesses; here the
// obligation that matters is that the step does not panic - `hash % 0`, index out of range).
func VX_C01_hash_set_append() { VX_C17_hs_append() }
func VX_C01_hash_set_delete() { VX_C17_hs_delete() }
func VX_C01_hash_map_set()    { VX_C17_set() }
func VX_C01_hash_map_delete() { VX_C17_delete() }
