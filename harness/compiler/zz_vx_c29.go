//go:build verif

package compiler

import (
	"io"

	"encoding/binary"

	"github.com/elk-language/elk/bytecode"
	"github.com/elk-language/elk/position"
	"github.com/elk-language/elk/position/diagnostic"
	"github.com/elk-language/elk/value"
	"github.com/elk-language/elk/vm"
)

// C29: what the compiler's emitters write is what the VM's run loop reads. Each harness lets
// the real emitter encode an instruction for a symbolic operand, appends RETURN, and executes
// the result on the real run loop (vm.VXExec, a harness entry in package vm).

var vxLoc = position.NewLocation("/tmp/h.elk", position.NewSpan(position.New(0, 1, 1), position.New(0, 1, 1)))

func vxCompiler() *BytecodeCompiler {
	return &BytecodeCompiler{
		bytecode: vm.NewBytecodeFunctionSimple(value.ToSymbol("h"), []byte{}, vxLoc),
		Errors:   diagnostic.NewSyncDiagnosticList(),
	}
}

// slot i holds the integer i
func vxLocals(n int) []value.Value {
	l := make([]value.Value, n)
	for i := range l {
		l[i] = value.SmallInt(i).ToValue()
	}
	return l
}

// operand windows: both encodings and the values around the 8/16-bit switch
func vxIndex(name string, n int) uint16 {
	i := vxUint16(name)
	if vxTier() == 0 {
		vxAssume(i < 7 || (i >= 253 && int(i) < n))
	} else {
		vxAssume(int(i) < n)
	}
	return i
}

const vxNLocals = 260

// the same windows with one path per value (for operands that drive loops or index pointer slices)
func vxIndexEach(name string, n int) int {
	if vxTier() == 0 {
		k := vxChoose(name, 7+n-253)
		if k >= 7 {
			k += 253 - 7
		}
		return k
	}
	return vxChoose(name, n)
}

func vxLineTableCoversCode(c *BytecodeCompiler) bool {
	total := 0
	for _, e := range c.bytecode.LineInfoList {
		if e.InstructionCount < 1 {
			return false
		}
		total += e.InstructionCount
	}
	return total == len(c.bytecode.Instructions)
}

// the disassembler walks the emitted code instruction by instruction, without an error, and ends
// exactly at the end of the code (it reads every operand with the width the emitter wrote)
func vxDisassembles(c *BytecodeCompiler) bool {
	fn := c.bytecode
	off := 0
	for off < len(fn.Instructions) {
		next, err := fn.DisassembleInstruction(io.Discard, off)
		if err != nil || next <= off {
			return false
		}
		off = next
	}
	return off == len(fn.Instructions)
}

func VX_C29_get_local() {
	idx := vxIndex("idx", vxNLocals)
	c := vxCompiler()
	c.emitGetLocal(1, idx)
	c.emit(1, bytecode.RETURN)
	vxAssert(vxLineTableCoversCode(c), "get-local/line-table-covers-every-byte")
	vxAssert(vxDisassembles(c), "get-local/disassembles-to-the-end-of-the-code")
	got, err := vm.VXExec(c.bytecode, vxLocals(vxNLocals), 2, nil)
	vxAssert(err.IsUndefined() && got.IsSmallInt() && int(got.AsSmallInt()) == int(idx), "get-local/vm-reads-the-emitted-index")
}

func VX_C29_set_local() {
	idx := vxIndex("idx", vxNLocals)
	noPop := vxSplit("noPop", 2) == 1
	c := vxCompiler()
	c.emitSmallInt(77, vxLoc)
	if noPop {
		c.emitSetLocalNoPop(1, idx)
		c.emit(1, bytecode.POP)
	} else {
		c.emitSetLocalPop(1, idx)
	}
	c.emitGetLocal(1, idx)
	c.emit(1, bytecode.RETURN)
	vxAssert(vxLineTableCoversCode(c), "set-local/line-table-covers-every-byte")
	vxAssert(vxDisassembles(c), "set-local/disassembles-to-the-end-of-the-code")
	got, err := vm.VXExec(c.bytecode, vxLocals(vxNLocals), 3, nil)
	vxAssert(err.IsUndefined() && got.IsSmallInt() && got.AsSmallInt() == 77, "set-local/vm-writes-the-emitted-index")
}

func VX_C29_upvalue() {
	idx := uint16(vxIndexEach("idx", vxNLocals))
	set := vxSplit("set", 2) == 1
	ups := make([]*vm.Upvalue, vxNLocals)
	for i := range ups {
		ups[i] = vm.NewClosedUpvalue(value.SmallInt(i).ToValue())
	}
	c := vxCompiler()
	if set {
		c.emitSmallInt(77, vxLoc)
		c.emitSetUpvaluePop(1, idx)
	}
	c.emitGetUpvalue(1, idx)
	c.emit(1, bytecode.RETURN)
	vxAssert(vxLineTableCoversCode(c), "upvalue/line-table-covers-every-byte")
	vxAssert(vxDisassembles(c), "upvalue/disassembles-to-the-end-of-the-code")
	got, err := vm.VXExec(c.bytecode, vxLocals(1), 3, ups)
	want := int(idx)
	if set {
		want = 77
	}
	vxAssert(err.IsUndefined() && got.IsSmallInt() && int(got.AsSmallInt()) == want, "upvalue/vm-uses-the-emitted-index")
}

// every Int literal: the dedicated opcodes, the 8 and 16 bit immediates and the value pool
func VX_C29_small_int() {
	i := vxInt64("i")
	c := vxCompiler()
	c.emitSmallInt(value.SmallInt(i), vxLoc)
	c.emit(1, bytecode.RETURN)
	vxAssert(vxLineTableCoversCode(c), "small-int/line-table-covers-every-byte")
	vxAssert(vxDisassembles(c), "small-int/disassembles-to-the-end-of-the-code")
	got, err := vm.VXExec(c.bytecode, vxLocals(1), 2, nil)
	vxAssert(err.IsUndefined() && got.IsSmallInt() && int64(got.AsSmallInt()) == i, "small-int/vm-loads-the-emitted-literal")
}

// the k-th value of the pool is what LOAD_VALUE k pushes (8 and 16 bit pool indices)
func VX_C29_load_value() {
	k := vxIndexEach("k", vxNLocals)
	c := vxCompiler()
	for i := 0; i < k; i++ {
		c.bytecode.Values = append(c.bytecode.Values, value.SmallInt(1000+i).ToValue())
	}
	id := c.emitLoadValue(value.Float(2.5).ToValue(), vxLoc)
	c.emit(1, bytecode.RETURN)
	vxAssert(id == k, "load-value/pool-index")
	vxAssert(vxLineTableCoversCode(c), "load-value/line-table-covers-every-byte")
	vxAssert(vxDisassembles(c), "load-value/disassembles-to-the-end-of-the-code")
	got, err := vm.VXExec(c.bytecode, vxLocals(1), 2, nil)
	vxAssert(err.IsUndefined() && got.IsFloat() && got.AsFloat() == 2.5, "load-value/vm-loads-the-emitted-pool-entry")
}

// a collection literal of `size` elements: the count the VM pops is the count emitted
func VX_C29_new_list() {
	size := vxIndexEach("size", vxNLocals)
	c := vxCompiler()
	c.emit(1, bytecode.UNDEFINED)
	for i := 0; i < size; i++ {
		c.emit(1, bytecode.INT_1)
	}
	c.emitNewArrayList(size, vxLoc)
	c.emit(1, bytecode.RETURN)
	vxAssert(vxLineTableCoversCode(c), "new-list/line-table-covers-every-byte")
	vxAssert(vxDisassembles(c), "new-list/disassembles-to-the-end-of-the-code")
	got, err := vm.VXExec(c.bytecode, vxLocals(1), size+3, nil)
	ok := err.IsUndefined() && got.IsReference()
	if ok {
		l, isList := got.AsReference().(*value.ArrayListOfValue)
		ok = isList && l.Length() == size
	}
	vxAssert(ok, "new-list/vm-collects-the-emitted-number-of-elements")
}

// forward jump: after patching, the VM lands exactly on the instruction that follows the patch point
func VX_C29_jump_forward() {
	filler := vxSplit("filler", 4)
	kind := vxSplit("kind", 2)
	c := vxCompiler()
	var off int
	if kind == 0 {
		off = c.emitJump(1, bytecode.JUMP)
	} else {
		c.emit(1, bytecode.FALSE)
		off = c.emitJump(1, bytecode.JUMP_UNLESS)
	}
	for i := 0; i < filler; i++ {
		c.emit(1, bytecode.INT_2)
		c.emit(1, bytecode.RETURN)
	}
	c.patchJump(off, vxLoc)
	c.emit(1, bytecode.INT_5)
	c.emit(1, bytecode.RETURN)
	vxAssert(vxLineTableCoversCode(c), "jump/line-table-covers-every-byte")
	vxAssert(vxDisassembles(c), "jump/disassembles-to-the-end-of-the-code")
	got, err := vm.VXExec(c.bytecode, vxLocals(1), 3, nil)
	vxAssert(err.IsUndefined() && got.IsSmallInt() && got.AsSmallInt() == 5, "jump/lands-on-the-instruction-after-the-patch-point")
}

// backward jump: LOOP lands on the recorded start offset
func VX_C29_loop() {
	filler := vxSplit("filler", 4)
	c := vxCompiler()
	over := c.emitJump(1, bytecode.JUMP)
	for i := 0; i < filler; i++ {
		c.emit(1, bytecode.INT_2)
		c.emit(1, bytecode.RETURN)
	}
	start := c.nextInstructionOffset()
	c.emit(1, bytecode.INT_3)
	c.emit(1, bytecode.RETURN)
	c.patchJump(over, vxLoc)
	for i := 0; i < filler; i++ {
		c.emit(1, bytecode.NOOP)
	}
	c.emitLoop(vxLoc, start)
	c.emit(1, bytecode.INT_4)
	c.emit(1, bytecode.RETURN)
	vxAssert(vxLineTableCoversCode(c), "loop/line-table-covers-every-byte")
	vxAssert(vxDisassembles(c), "loop/disassembles-to-the-end-of-the-code")
	got, err := vm.VXExec(c.bytecode, vxLocals(1), 3, nil)
	vxAssert(err.IsUndefined() && got.IsSmallInt() && got.AsSmallInt() == 3, "loop/lands-on-the-start-offset")
}

// the operand arithmetic for every distance: a jump that does not fit 16 bits is a
// diagnostic, never a silently truncated operand
func VX_C29_jump_operand() {
	target := vxInt("target")
	vxAssume(target >= 0)
	c := vxCompiler()
	off := c.emitJump(1, bytecode.JUMP)
	c.patchJumpWithTarget(target, off, vxLoc)
	operand := int(binary.BigEndian.Uint16(c.bytecode.Instructions[off : off+2]))
	if target <= 65535 {
		vxAssert(operand == target, "jump-operand/encodes-the-distance")
		vxAssert(!c.Errors.IsFailure(), "jump-operand/no-diagnostic-when-it-fits")
	} else {
		vxAssert(c.Errors.IsFailure(), "jump-operand/too-far-is-a-diagnostic")
	}
}
