//go:build verif

package lexer

// C04: token spans are ordered, disjoint and inside the source; each token's line and column
// agree with its byte offset; colouring reassembles the source byte for byte.

func VX_C04_positions() {
	n := vxSourceLen()
	src := vxString("src", n)
	vxCheckStream(New(src), src, n, "lex", true)
}

func VX_C04_positions_modes() {
	l, src, n := vxLexerInMode()
	vxCheckStream(l, src, n, "modes", true)
}

// with the colour codes elided, Colorize(source) is the source
func VX_C04_colorize() {
	n := vxSourceLen()
	src := vxString("src", n)
	vxAssert(Colorize(src) == src, "colorize/output-is-the-source-plus-colour-codes")
	vxAssert(ColorizeEmbellishedText(src) == src, "colorize-embellished/output-is-the-source-plus-colour-codes")
}
