//go:build verif

package lexer

// C04: token spans are ordered, disjoint and inside the source; each token's line and column
// agree with its byte offset; colouring reassembles the source byte for byte.

func VX_C04_positions() {
	n := vxSourceLen()
	src := vxString("src", n)
	vxCheckStream(New(src), src, n, "lex", true)
}

func VX_C04_positions_modes() {
	l, src, n := vxLexerInMode()
	vxCheckStream(l, src, n, "modes", true)
}

// with the colour codes elided, Colorize(source) is the source
func VX_C04_colorize() {
	n := vxSourceLen()
	src := vxString("src", n)
	vxAssert(Colorize(src) == src, "colorize/output-is-the-source-plus-colour-codes")
	vxAssert(ColorizeEmbellishedText(src) == src, "colorize-embellished/output-is-the-source-plus-colour-codes")
}

// longer inputs over the alphabets that drive the literal scanners: 3 (quick) / 4 (thorough)
// bytes inside a string literal over {\\ newline " x u a} and inside a regex literal over {\\ newline / a}
func VX_C04_positions_literals() {
	n := 3 + vxTier()
	src := vxString("src", n)
	var l *Lexer
	if vxSplit("regex", 2) == 0 {
		for i := 0; i < n; i++ {
			c := src[i]
			vxAssume(c == '\\' || c == '\n' || c == '"' || c == 'x' || c == 'u' || c == 'a')
		}
		l = New(src)
		l.pushMode(stringLiteralMode)
	} else {
		for i := 0; i < n; i++ {
			c := src[i]
			vxAssume(c == '\\' || c == '\n' || c == '/' || c == 'a')
		}
		l = New(src)
		l.pushMode(regexLiteralMode)
	}
	vxCheckStream(l, src, n, "literals", true)
}

// single-line comments: `#` or `//`, two arbitrary bytes (so every one- and two-byte character,
// and every invalid byte), a newline and an identifier: the comment's characters are counted as
// characters, not bytes, and the tokens after it are on the next line
func VX_C04_positions_comment() {
	body := vxString("body", 2)
	var src string
	if vxSplit("slash", 2) == 0 {
		src = "#" + body + "\na"
	} else {
		src = "//" + body + "\na"
	}
	vxCheckStream(New(src), src, len(src), "comment", true)
}
