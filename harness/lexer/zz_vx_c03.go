//go:build verif

package lexer

import (
	"unicode"
	"unicode/utf8"

	"github.com/elk-language/elk/token"
)

// C03 / C04: the lexer is total and makes progress on every byte string of length <= N, and the
// tokens' spans and positions agree with the source text.

func vxSourceLen() int {
	if vxTier() == 0 {
		return vxSplit("len", 3) // 0..2 bytes
	}
	return vxSplit("len", 4) // 0..3 bytes
}

// reference position of byte offset `off`: line = 1 + newlines before it, column = 1 + code
// points since the last newline (a byte that does not start a valid UTF-8 sequence counts as one)
func vxLineCol(src string, off int) (int, int) {
	line, col := 1, 1
	i := 0
	for i < off && i < len(src) {
		c := src[i]
		n := 1
		switch {
		case c < 0x80:
		case c >= 0xC2 && c <= 0xDF && i+1 < len(src) && src[i+1]&0xC0 == 0x80:
			n = 2
		case c >= 0xE0 && c <= 0xEF && i+2 < len(src) && vxValid3(src[i], src[i+1], src[i+2]):
			n = 3
		case c >= 0xF0 && c <= 0xF4 && i+3 < len(src) && vxValid4(src[i], src[i+1], src[i+2], src[i+3]):
			n = 4
		}
		if c == '\n' {
			line++
			col = 1
		} else {
			col++
		}
		i += n
	}
	return line, col
}

func vxValid3(a, b, c byte) bool {
	if b&0xC0 != 0x80 || c&0xC0 != 0x80 {
		return false
	}
	if a == 0xE0 && b < 0xA0 {
		return false
	}
	if a == 0xED && b > 0x9F {
		return false
	}
	return true
}

func vxValid4(a, b, c, d byte) bool {
	if b&0xC0 != 0x80 || c&0xC0 != 0x80 || d&0xC0 != 0x80 {
		return false
	}
	if a == 0xF0 && b < 0x90 {
		return false
	}
	if a == 0xF4 && b > 0x8F {
		return false
	}
	return true
}

func VX_C03_lex_total() {
	vxTerminates(64)
	n := vxSourceLen()
	src := vxString("src", n)
	vxCheckStream(New(src), src, n, "lex", false)
}

// the same obligations when lexing starts inside each of the lexer's other modes (string and
// regex literals, word/symbol/hex/bin collection literals, interpolation, embellished text, ...)
func vxCheckStream(l *Lexer, src string, n int, tag string, positions bool) {
	prevEnd := -1
	empties := 0
	for i := 0; i < 3*n+4; i++ {
		before := l.cursor
		tok := l.Next()
		vxAssert(tok != nil, tag+"/next-returns-a-token")
		if tok == nil {
			return
		}
		vxAssert(l.cursor >= before && l.cursor <= len(src), tag+"/cursor-stays-inside-the-source")
		if tok.Type == token.END_OF_FILE {
			vxAssert(l.cursor == len(src), tag+"/end-of-file-only-at-the-end")
			return
		}
		sp := tok.Span()
		start, end := sp.StartPos.ByteOffset, sp.EndPos.ByteOffset
		if end == start-1 {
			// a zero-width token (an empty string segment, an "unterminated ..." error at the end
			// of the input): allowed, but not without end
			empties++
			vxAssert(0 <= start && start <= len(src), tag+"/empty-token-inside-the-source")
			vxAssert(empties <= 2 || l.cursor > before, tag+"/no-endless-run-of-empty-tokens")
			continue
		}
		if l.cursor > before {
			empties = 0
		}
		vxAssert(0 <= start && start <= end && end < len(src), tag+"/span-inside-the-source")
		if !positions {
			continue
		}
		vxAssert(start > prevEnd, tag+"/tokens-do-not-overlap-and-keep-order")
		prevEnd = end
		line, col := vxLineCol(src, start)
		vxAssert(sp.StartPos.Line == line, tag+"/line-agrees-with-the-byte-offset")
		vxAssert(sp.StartPos.Column == col, tag+"/column-agrees-with-the-byte-offset")
	}
	vxAssert(false, tag+"/terminates-within-3*len+4-tokens")
}

func VX_C03_lex_modes() {
	vxTerminates(64)
	l, src, n := vxLexerInMode()
	vxCheckStream(l, src, n, "modes", false)
}

func vxLexerInMode() (*Lexer, string, int) {
	m := mode(1 + vxSplit("mode", int(embellishedTripleBacktickMode)))
	n := vxSplit("len", 3) // 0..2 bytes in both tiers (29 modes x 256^n inputs)
	src := vxString("src", n)
	// the mode is entered the way the lexer enters it: pushed on top of the base mode
	var l *Lexer
	switch {
	case m == embellishmentMode:
		l = NewWithMode("<main>", src, m)
	case m > embellishmentMode:
		l = NewWithMode("<main>", src, embellishmentMode)
		l.pushMode(m)
	case m == invalidHexEscapeMode || m == invalidUnicodeEscapeMode || m == invalidBigUnicodeEscapeMode || m == invalidEscapeMode || m == stringInterpolationMode:
		l = New(src)
		l.pushMode(stringLiteralMode)
		l.pushMode(m)
	case m == regexFlagMode || m == regexInterpolationMode:
		l = New(src)
		l.pushMode(regexLiteralMode)
		l.pushMode(m)
	default:
		l = New(src)
		l.pushMode(m)
	}
	if m == invalidHexEscapeMode || m == invalidUnicodeEscapeMode || m == invalidBigUnicodeEscapeMode || m == invalidEscapeMode {
		// these modes are only entered with the offending escape at the cursor
		vxAssume(n >= 2 && src[0] == '\\')
	}
	if m == regexFlagMode {
		// entered only when a letter follows the closing `/` (scanRegexLiteral), and left as soon
		// as the character after the current flag is not a letter (scanRegexFlag)
		vxAssume(n >= 1)
		r, _ := utf8.DecodeRuneInString(src)
		vxAssume(unicode.IsLetter(r))
	}
	return l, src, n
}

// doc comments: `##[` body `]##` and `/**` body `**/` with an arbitrary body of <= 7 bytes over
// the alphabet {space, newline, 'a'} (the de-indentation code slices lines by computed widths)
func VX_C03_doc_comment() {
	vxTerminates(64)
	n := 3 + vxSplit("len", 5) // 3..7
	body := vxString("body", n)
	for i := 0; i < n; i++ {
		vxAssume(body[i] == ' ' || body[i] == '\n' || body[i] == 'a')
	}
	var src string
	if vxSplit("slash", 2) == 0 {
		src = "##[" + body + "]##"
	} else {
		src = "/**" + body + "**/"
	}
	l := New(src)
	vxCheckStream(l, src, 4, "doc-comment", false)
}
