//go:build verif

package lexer

import (
	"github.com/elk-language/elk/token"
	"github.com/elk-language/elk/value"
)

// C19: the text `inspect` produces for a String or Char is Elk source that the real lexer reads
// back as ONE literal with exactly the original content.

// the string content the lexer reads back from a source that must be a single string literal
func vxLexString(src string) (string, bool) {
	toks := Lex(src)
	if len(toks) < 2 || toks[0].Type != token.STRING_BEG {
		return "", false
	}
	content := ""
	i := 1
	for ; i < len(toks) && toks[i].Type == token.STRING_CONTENT; i++ {
		content += toks[i].Value
	}
	if i != len(toks)-1 || toks[i].Type != token.STRING_END {
		return "", false
	}
	return content, true
}

// every string of one arbitrary byte (valid or invalid UTF-8), and (thorough) of two bytes
func VX_C19_string_bytes() {
	n := 1 + vxTier()*vxSplit("len", 2)
	s := vxString("s", n)
	got, ok := vxLexString(value.String(s).Inspect())
	vxAssert(ok, "string/inspect-output-is-one-string-literal")
	vxAssert(!ok || got == s, "string/inspect-output-reads-back-as-the-same-bytes")
}

// every string that is one well-formed two-byte UTF-8 character (U+0080..U+07FF)
func VX_C19_string_two_byte_char() {
	a, b := vxUint8("a"), vxUint8("b")
	vxAssume(a >= 0xC2 && a <= 0xDF && b >= 0x80 && b <= 0xBF)
	s := string([]byte{a, b})
	got, ok := vxLexString(value.String(s).Inspect())
	vxAssert(ok, "string-char/inspect-output-is-one-string-literal")
	if a == 0xC2 && b < 0xA0 {
		// U+0080..U+009F: C1 control characters, printed as \xNN
		vxAssert(!ok || got == s, "string-char/c1-control-characters-read-back-as-the-same-bytes")
	} else {
		vxAssert(!ok || got == s, "string-char/inspect-output-reads-back-as-the-same-bytes")
	}
}

// every Char below U+0800
func VX_C19_char() {
	c := vxUint16("c")
	vxAssume(c < 0x800)
	src := value.Char(c).Inspect()
	toks := Lex(src)
	ok := len(toks) == 1 && toks[0].Type == token.CHAR_LITERAL
	vxAssert(ok, "char/inspect-output-is-one-char-literal")
	if !ok {
		return
	}
	want := string(rune(c))
	if c >= 0x80 && c < 0xA0 {
		vxAssert(toks[0].Value == want, "char/c1-control-characters-read-back-as-the-same-char")
	} else {
		vxAssert(toks[0].Value == want, "char/inspect-output-reads-back-as-the-same-char")
	}
}

// the symbol name the parser's symbolLiteral rule reads back from a source that must be a single
// symbol literal: `:` followed by one identifier / constant / keyword / operator token (its
// value or, for valueless tokens, its name), or by one double-quoted string without interpolation
func vxLexSymbol(src string) (string, bool) {
	toks := Lex(src)
	if len(toks) < 2 || toks[0].Type != token.COLON {
		return "", false
	}
	if toks[1].IsValidSimpleSymbolContent() {
		return toks[1].FetchValue(), len(toks) == 2
	}
	if toks[1].Type != token.STRING_BEG {
		return "", false
	}
	content := ""
	i := 2
	for ; i < len(toks) && toks[i].Type == token.STRING_CONTENT; i++ {
		content += toks[i].Value
	}
	if i != len(toks)-1 || toks[i].Type != token.STRING_END {
		return "", false
	}
	return content, true
}

// every symbol whose name is 0..1 arbitrary bytes, and (thorough) 2 bytes
func VX_C19_symbol_bytes() {
	vxExactFormat() // InspectSymbol builds its result with fmt.Sprintf
	n := vxSplit("len", 2+vxTier())
	s := vxString("s", n)
	got, ok := vxLexSymbol(value.InspectSymbol(s))
	vxAssert(ok, "symbol/inspect-output-is-one-symbol-literal")
	vxAssert(!ok || got == s, "symbol/inspect-output-reads-back-as-the-same-name")
}

// every symbol whose name is one well-formed two-byte character, alone or before/after `a`
func VX_C19_symbol_two_byte_char() {
	vxExactFormat()
	a, b := vxUint8("a"), vxUint8("b")
	vxAssume(a >= 0xC2 && a <= 0xDF && b >= 0x80 && b <= 0xBF)
	var s string
	switch vxSplit("shape", 3) {
	case 0:
		s = string([]byte{a, b})
	case 1:
		s = string([]byte{a, b, 'a'})
	default:
		s = string([]byte{'a', a, b})
	}
	got, ok := vxLexSymbol(value.InspectSymbol(s))
	vxAssert(ok, "symbol-char/inspect-output-is-one-symbol-literal")
	vxAssert(!ok || got == s, "symbol-char/inspect-output-reads-back-as-the-same-name")
}
