//go:build verif

package test

// C34: the real describe/test natives and the real filters decide which cases are
// registered; the spec is written from the property statement.

import (
	"github.com/elk-language/elk/position"
	"github.com/elk-language/elk/value"
	"github.com/elk-language/elk/vm"
)

var vxTestModuleCache *value.Module

// vxNativeFn: the engine resolves the Def(...) site from the current SSA; natively the
// module is initialised and the registered method is looked up.
func vxNativeFn(initFn, name string) vm.NativeFunction {
	if vxTestModuleCache == nil {
		vxTestModuleCache = initTest()
	}
	m := vxTestModuleCache.SingletonClass().Methods[value.ToSymbol(name)]
	return m.(*vm.NativeMethod).Function
}

func vxLoc(file string, start, end int) *position.Location {
	return position.NewLocation(file, position.NewSpan(position.New(0, start, 1), position.New(0, end, 1)))
}

type vxPathSpec struct {
	pattern string
	line    int
}

// "case satisfies path filter": file matches and the line is unspecified, inside the
// case, or the first line of an enclosing describe block.
func vxSatisfiesPath(f vxPathSpec, file string, cs, ce int, suiteStarts []int) bool {
	if f.pattern != file {
		return false
	}
	if f.line < 0 {
		return true
	}
	if f.line >= cs && f.line <= ce {
		return true
	}
	for _, s := range suiteStarts {
		if f.line == s {
			return true
		}
	}
	return false
}

func VX_C34_select() {
	Filters = nil
	RootSuite = NewSuite("", nil, nil)
	CurrentSuite = RootSuite
	describe := vxNativeFn("initTest", "describe")
	test := vxNativeFn("initTest", "test")
	th := &vm.Thread{}

	// suite tree: root -> s1 -> s2 -> case, symbolic line intervals constrained by nesting
	s1s, s1e := vxInt("s1.start"), vxInt("s1.end")
	s2s, s2e := vxInt("s2.start"), vxInt("s2.end")
	cs, ce := vxInt("case.start"), vxInt("case.end")
	vxAssume(0 < s1s && s1s < s2s && s2s < cs && cs <= ce && ce < s2e && s2e < s1e && s1e < 1000000)
	files := []string{"f.elk", "g.elk"}
	file := files[vxChoose("file", 2)]

	// filters
	nPath := vxSplit("pathFilters", 3)
	grep := vxSplit("grep", 3) // 0: none, 1: matching literal, 2: non-matching literal
	grepFirst := vxSplit("grepFirst", 2) == 1
	var specs []vxPathSpec
	addGrep := func() {
		if grep == 0 {
			return
		}
		pat := "case one"
		if grep == 2 {
			pat = "zzz"
		}
		f, err := NewRegexFilter(pat)
		vxAssume(err == nil)
		RegisterFilter(f)
	}
	if grepFirst {
		addGrep()
	}
	for i := 0; i < nPath; i++ {
		name := "line" + string(rune('0'+i))
		sp := vxPathSpec{pattern: "f.elk", line: vxInt(name)}
		vxAssume(sp.line >= -1 && sp.line < 1000000)
		vxAssume(sp.line != 0)
		specs = append(specs, sp)
		RegisterFilter(&PathFilter{pattern: sp.pattern, line: sp.line})
	}
	if !grepFirst {
		addGrep()
	}

	caseFn := vm.NewNativeClosure(func(*vm.Thread, []value.Value) (value.Value, value.Value) {
		return value.Nil, value.Undefined
	}, 0, vxLoc(file, cs, ce))
	s2body := vm.NewNativeClosure(func(v *vm.Thread, _ []value.Value) (value.Value, value.Value) {
		return test(v, []value.Value{value.Nil, value.Ref(value.String("case one")), value.Ref(caseFn)})
	}, 0, vxLoc(file, s2s, s2e))
	s1body := vm.NewNativeClosure(func(v *vm.Thread, _ []value.Value) (value.Value, value.Value) {
		return describe(v, []value.Value{value.Nil, value.Ref(value.String("inner")), value.Ref(s2body)})
	}, 0, vxLoc(file, s1s, s1e))
	_, err := describe(th, []value.Value{value.Nil, value.Ref(value.String("outer")), value.Ref(s1body)})
	vxAssert(err.IsUndefined(), "no-error")

	registered := 0
	TraverseSuite(RootSuite, func(t SuiteOrCase) TraverseOption {
		if _, ok := t.(*Case); ok {
			registered++
		}
		return TraverseContinue
	}, nil)

	want := true
	viaDescribeLine := false // some path filter is satisfied only through the line of an enclosing describe
	for _, sp := range specs {
		if !vxSatisfiesPath(sp, file, cs, ce, []int{s1s, s2s}) {
			want = false
		} else if !vxSatisfiesPath(sp, file, cs, ce, nil) {
			viaDescribeLine = true
		}
	}
	if grep == 2 {
		want = false
	}
	nFilters := len(specs)
	if grep != 0 {
		nFilters++
	}
	vxCover("reached")
	vxAssert(registered <= 1, "at-most-once")
	if want {
		if viaDescribeLine && nFilters > 1 {
			// region of the recorded finding: a describe-line filter combined with another filter
			vxAssert(registered == 1, "selected-via-describe-line-among-several-filters")
		} else {
			vxAssert(registered == 1, "selected-case-is-registered")
		}
	} else {
		vxAssert(registered == 0, "unselected-case-is-not-registered")
	}
	vxAssert(CurrentSuite == RootSuite, "current-suite-restored")
}

// exit status: failure exactly when some executed case failed or errored
func VX_C34_status() {
	root := NewSuiteReport(NewSuite("", nil, nil))
	root.status = TEST_RUNNING
	n := vxSplit("cases", 4)
	anyBad := false
	if n == 0 {
		// Suite.Run's shortcut for a suite without cases
		root.status = TEST_SKIPPED
	} else {
		sub := NewSuiteReport(NewSuite("s", nil, nil))
		sub.status = TEST_RUNNING
		for i := 0; i < n; i++ {
			st := TestStatus(vxUint8("status" + string(rune('0'+i))))
			vxAssume(st == TEST_SUCCESS || st == TEST_FAILED || st == TEST_ERROR)
			if st != TEST_SUCCESS {
				anyBad = true
			}
			cr := NewCaseReport(nil)
			cr.status = st
			if i%2 == 0 {
				sub.RegisterCaseReport(cr)
			} else {
				root.RegisterCaseReport(cr)
			}
		}
		sub.UpdateStatus(TEST_SUCCESS)
		root.RegisterSubSuiteReport(sub)
		root.UpdateStatus(TEST_SUCCESS)
	}
	exitFailure := root.Status() != TEST_SUCCESS // cmd/elk/main.go runTestFile
	if n == 0 {
		vxAssert(exitFailure == anyBad, "exit-status-when-no-case-selected")
	} else {
		vxAssert(exitFailure == anyBad, "exit-status-iff-failed-or-errored")
	}
}
