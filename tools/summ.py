#!/usr/bin/env python3
"""Compact summary of a vx run's output (stdin): distinct (harness, assertion, site) with job counts."""
import sys, re, collections
c = collections.Counter(); ex = {}
lines = sys.stdin.read().split("\n")
for i, l in enumerate(lines):
    m = re.match(r"(?:non-replaying counterexample: |  )?(VX_\w+)(\[[^\]]*\])?/(\S+) \[(\w+)\] (.*?) at (\S+)", l)
    if m and ("replay=" in l):
        st = re.search(r"replay=(\S+)", l).group(1)
        key = (m.group(1), m.group(3), m.group(4), re.sub(r"\[.*", "", m.group(6)), st)
        c[key] += 1
        if key not in ex and i + 1 < len(lines):
            ex[key] = (m.group(2) or "") + " " + lines[i + 1].strip()[:160]
for k, n in sorted(c.items()):
    print(n, *k); print("     e.g.", ex.get(k, ""))
inc = collections.Counter()
for l in lines:
    if l.startswith("INCONCLUSIVE") and "did not replay" not in l:
        m = re.match(r"INCONCLUSIVE property=\S+ (VX_\w+)\S* (?:path \[[^\]]*\]|(\S+) at \S+): (.*)", l)
        inc[(m.group(1), m.group(2) or "", m.group(3)[:150]) if m else ("?", "", l[:200])] += 1
for k, n in sorted(inc.items()):
    print("INCONCLUSIVE x%d" % n, *k)
for l in lines:
    if l.startswith("SUMMARY"): print(l)
