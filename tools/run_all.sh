#!/bin/sh
# tools/run_all.sh quick|thorough: run every registered command of that tier from MANIFEST.json, one after the other;
# per-check logs and a one-line summary per check go to /tmp/vxlogs/all.<tier>.*
tier=$1
cd /verif
mkdir -p /tmp/vxlogs
python3 - "$tier" <<'P' > /tmp/run_all.$tier.cmds
import json,sys
m=json.load(open('/verif/MANIFEST.json'))
for c in m['checks']:
    print(c['property_id']+'\t'+c[sys.argv[1]+'_cmd'])
P
: > /tmp/vxlogs/all.$tier.summary
while IFS="$(printf '\t')" read -r id cmd; do
  start=$(date +%s)
  (cd /verif && sh -c "$cmd") > /tmp/vxlogs/all.$tier.$id.log 2>&1
  rc=$?
  end=$(date +%s)
  echo "$id exit=$rc secs=$((end-start)) $(grep '^SUMMARY' /tmp/vxlogs/all.$tier.$id.log | cut -c1-260)" >> /tmp/vxlogs/all.$tier.summary
done < /tmp/run_all.$tier.cmds
echo ALLDONE >> /tmp/vxlogs/all.$tier.summary
