#!/bin/sh
# tools/verify_seed.sh <seed-out-dir> <demo-pkg-dir>: confirm a seeded change in a scratch worktree of /repo HEAD:
# demo passes without the patch, patch applies + builds, demo fails with it, the existing suite passes with it.
out="$1"; pkg="$2"; id=$(basename "$out")
wt=/tmp/seed/verify-wt-$id; log=/tmp/seed/verify/$id.txt; mkdir -p /tmp/seed/verify
git -C /repo worktree remove --force $wt >/dev/null 2>&1
git -C /repo worktree add --detach $wt HEAD >/dev/null 2>&1 || { echo "worktree failed"; exit 2; }
cd $wt
{
echo "seed $id at $(git rev-parse --short HEAD)"
cp $out/zz_seed_demo_test.go $pkg/zz_seed_demo_test.go
go test -mod=mod -vet=off -count=1 -run 'Seed' ./$pkg/ > /tmp/seed/verify/$id.demo_without.txt 2>&1; echo "demo_without_patch_exit=$?"
git apply $out/patch.diff; echo "apply_exit=$?"
go build ./... ; echo "build_exit=$?"
go test -mod=mod -vet=off -count=1 -run 'Seed' ./$pkg/ > /tmp/seed/verify/$id.demo_with.txt 2>&1; echo "demo_with_patch_exit=$?"
rm -f $pkg/zz_seed_demo_test.go
go test -mod=mod -vet=off -count=1 -timeout 25m ./... > /tmp/seed/verify/$id.suite.txt 2>&1; rc=$?; echo "suite_exit=$rc"
if [ $rc -ne 0 ]; then
  grep "^FAIL\|^--- FAIL" /tmp/seed/verify/$id.suite.txt | head -5
  for p in $(grep "^FAIL" /tmp/seed/verify/$id.suite.txt | awk '{print $2}' | grep elk | sed 's#github.com/elk-language/elk#.#'); do
    for k in 1 2 3; do go test -mod=mod -vet=off -count=1 -timeout 25m $p > /tmp/seed/verify/$id.rerun.txt 2>&1; r=$?; echo "rerun $p try$k exit=$r"; [ $r -eq 0 ] && break; done
  done
fi
} > $log 2>&1
cd /; git -C /repo worktree remove --force $wt
cat $log
