#!/usr/bin/env python3
"""Regenerates /verif/MANIFEST.json from the per-property table below."""
import json, os

ROOT = os.path.dirname(os.path.dirname(os.path.abspath(__file__)))
props = [json.loads(l) for l in open(os.path.join(ROOT, "properties.jsonl"))]
base = json.load(open("/root/.vp/BASELINE.json"))

TECH = "bounded symbolic execution of the go/ssa of /repo's working tree (engine vx), every assertion decided by an SMT solver (z3) over the full path condition; counterexamples replayed natively"
TRUST = ("Trusted: go/packages+go/types+go/ssa (x/tools v0.50.0, go1.26.8) as the semantics of the source, the vx SSA->SMT-LIB translation "
         "(guarded by native replay of every counterexample and by must-fail selftests), z3 4.8.12. amd64 sizes, 64-bit int. "
         "Package init is not executed: package-level initialisers are evaluated from SSA, class/module singletons are distinct opaque objects. ")

# id -> (claim text (bounds), note (outside + stubs), design section)
CLAIMS = {
 "C32": ("Bounded model checking of the real bytecode.LineInfoList code: from an arbitrary well-formed run-length list of <= 3 entries (symbolic lines, symbolic counts 1..2^20) GetLineNumber equals the flat per-instruction line sequence for every index, AddLineNumber appends exactly `bytes` instructions of `line` and keeps runs maximal and counts positive, RemoveByte drops exactly the last instruction. The solver decides each assertion for all values within that bound.",
         "Outside the claim: lists longer than 3 entries, native callbacks' synthetic frames, promise/generator re-throw stitching and BuildStackTrace over real call frames (needs the run loop). " + TRUST,
         "DESIGN.md section 6 C32"),
 "C34": ("Bounded model checking of the real `describe`/`test` natives of ext/std/test (resolved from their vm.Def call sites in the current SSA), SuiteMatchesFilters/CaseMatchesFilters, PathFilter and RegexFilter: suite tree root->describe->describe->case with symbolic line intervals constrained only by nesting, 0-2 path filters with symbolic line (incl. -1), optional grep filter in either registration order; assertion: the case is registered exactly once iff it satisfies every filter (path filter: file matches and line unspecified, inside the case, or the first line of an enclosing describe). Status fold: <= 3 case statuses through RegisterCaseReport/RegisterSubSuiteReport/UpdateStatus and the exit mapping of runTestFile.",
         "Outside: glob patterns with metacharacters (doublestar is modelled for literal patterns only: match iff equal), non-literal grep patterns (regex modelled as substring test for literal patterns), deeper trees, before/after hooks, cases actually executed by the VM. Two genuine defects are recorded in known_findings.jsonl (describe-line filter combined with another filter; exit status when nothing is selected). " + TRUST,
         "DESIGN.md section 6 C34"),
}

NA = {
}

CLAIMS["C06"] = ("Bounded model checking of the real Int kernels (value.AddVal/SubtractVal/MultiplyVal/DivideVal/ModuloVal/ExponentiateVal/NegateVal/IncrementVal/DecrementVal/CompareVal/GreaterThan..LessThanEqualVal/EqualVal/LaxEqualVal and everything they reach in small_int.go/big_int.go, BitwiseAnd/Or/Xor/AndNot/NotVal, LeftBitshiftVal/RightBitshiftVal with every AnyInt kind as the count, BigInt.IsEven/IsOdd). Operands: SmallInt (all 2^64 values) or canonical BigInt, all four representation pairs. Integer back end for + - * / % neg inc dec cmp ** : operands of unbounded magnitude as mathematical integers, math/big modelled exactly, machine arithmetic with explicit wrap/division witnesses; exponents 0..3. Bit-vector back end for bitwise and shifts: big integers are 192-bit two's complement with |v| < 2^126, shift counts exact for |count| <= 100 and crash-free for every count whose result fits 192 bits. Assertions: result is the exact mathematical integer, canonical representation (SmallInt iff it fits int64), a == (a/b)*b + a%b, ZeroDivisionError exactly for zero divisors, comparisons agree with the integer order, operands are never modified.",
  "Outside: exponents > 3, shift counts whose result exceeds 192 bits (memory-exhaustion territory), String#to_int and literal parsing, Int x Float / BigFloat mixed results (C07/C18), the VM's typed opcodes and constant folder (C08), hash/inspect of the result (equal representation is shown instead: one canonical representation per integer). math/big is a model (checked by native replay of every counterexample), not its source. " + TRUST,
  "DESIGN.md section 6 C06")

checks = []
for p in props:
    pid = p["id"]
    if pid in CLAIMS:
        text, note, ref = CLAIMS[pid]
        checks.append({
            "property_id": pid,
            "quick_cmd": f"./check {pid} --tier quick",
            "thorough_cmd": f"./check {pid} --tier thorough",
            "evidence_file": f"evidence/{pid}.json",
            "replay_cmd_template": "./check --replay {path}",
            "engine": "vx",
            "level_claimed": {"category": "model_checking", "text": text, "design_ref": ref},
            "level_note": note,
            "technique": TECH,
        })

na = []
for p in props:
    pid = p["id"]
    if pid in CLAIMS:
        continue
    na.append({"property_id": pid, "reason": NA.get(pid, "check not built yet (engine under construction); see DESIGN.md sections 6 and 7")})

m = {
    "version": 1,
    "setup_cmd": "./setup.sh",
    "hooks": {
        "guard": "verif",
        "enable": "overlay injection of harness files carrying //go:build verif (go/packages Overlay for the encoder, go test -overlay for native replay); no source change in /repo",
        "baseline_off_cmd": base["cmd"],
        "source_commits": [],
        "add_only": True,
    },
    "engines": [{"name": "vx", "path": "engine", "serves_properties": sorted(CLAIMS), "kind_free_text": "path-forking symbolic executor over go/ssa of /repo's working tree; SMT-LIB2 obligations discharged by z3 (second opinion z3 5.1 / cvc5); native replay by go test -overlay"}],
    "checks": checks,
    "notes": "Bounded solver-based checking; every check regenerates its encoding from /repo's current source. See DESIGN.md.",
    "not_applicable": na,
}
json.dump(m, open(os.path.join(ROOT, "MANIFEST.json"), "w"), indent=1)
print("claims:", len(checks), "not_applicable:", len(na))
