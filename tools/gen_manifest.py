#!/usr/bin/env python3
"""Regenerates /verif/MANIFEST.json from tools/claims.d/<id>.json (claimed properties:
keys text, note, ref) and tools/na.json (id -> reason for the rest)."""
import json, os, glob

ROOT = os.path.dirname(os.path.dirname(os.path.abspath(__file__)))
props = [json.loads(l) for l in open(os.path.join(ROOT, "properties.jsonl"))]
base = json.load(open("/root/.vp/BASELINE.json"))

TECH = "bounded symbolic execution of the go/ssa of /repo's working tree (engine vx), every assertion decided by an SMT solver (z3) over the full path condition; counterexamples replayed natively"
TRUST = ("Trusted: go/packages+go/types+go/ssa (x/tools v0.50.0, go1.26.8) as the semantics of the source, the vx SSA->SMT-LIB translation "
         "(guarded by native replay of every counterexample and by must-fail selftests), z3 4.8.12. amd64 sizes, 64-bit int. "
         "Package init is not executed: package-level initialisers are evaluated from SSA, class/module singletons are distinct opaque objects. ")

CLAIMS = {}
for f in sorted(glob.glob(os.path.join(ROOT, "tools", "claims.d", "*.json"))):
    pid = os.path.basename(f)[:-5]
    CLAIMS[pid] = json.load(open(f))
NA = json.load(open(os.path.join(ROOT, "tools", "na.json")))

checks = []
for p in props:
    pid = p["id"]
    if pid in CLAIMS:
        c = CLAIMS[pid]
        checks.append({
            "property_id": pid,
            "quick_cmd": f"./check {pid} --tier quick {c.get('flags', '')}".strip(),
            "thorough_cmd": f"./check {pid} --tier thorough {c.get('flags_thorough', c.get('flags', ''))}".strip(),
            "evidence_file": f"evidence/{pid}.json",
            "replay_cmd_template": "./check --replay {path}",
            "engine": "vx",
            "level_claimed": {"category": "model_checking", "text": c["text"], "design_ref": c.get("ref", "DESIGN.md section 6 " + pid)},
            "level_note": c["note"] + " " + TRUST,
            "technique": TECH,
        })

na = []
for p in props:
    pid = p["id"]
    if pid in CLAIMS:
        continue
    na.append({"property_id": pid, "reason": NA.get(pid, "check not built yet (engine under construction); see DESIGN.md sections 6 and 7")})

m = {
    "version": 1,
    "setup_cmd": "./setup.sh",
    "hooks": {
        "guard": "verif",
        "enable": "overlay injection of harness files carrying //go:build verif (go/packages Overlay for the encoder, go test -overlay for native replay); no source change in /repo",
        "baseline_off_cmd": base["cmd"],
        "source_commits": [],
        "add_only": True,
    },
    "engines": [{"name": "vx", "path": "engine", "serves_properties": sorted(CLAIMS), "kind_free_text": "path-forking symbolic executor over go/ssa of /repo's working tree; SMT-LIB2 obligations discharged by z3 (second opinion z3 5.1 / cvc5); native replay by go test -overlay"}],
    "checks": checks,
    "notes": "Bounded solver-based checking; every check regenerates its encoding from /repo's current source. See DESIGN.md.",
    "not_applicable": na,
}
json.dump(m, open(os.path.join(ROOT, "MANIFEST.json"), "w"), indent=1)
print("claims:", len(checks), "not_applicable:", len(na))
