#!/bin/sh
# tools/seedtest.sh <patch.diff> <property> [tier] [extra flags]: apply a seeded change to /repo, run the check, undo.
patch="$1"; prop="$2"; tier="${3:-quick}"; shift; shift; shift
cd /repo || exit 2
if [ -n "$(git status --porcelain)" ]; then echo "/repo not clean"; exit 2; fi
git apply "$patch" || { echo "patch does not apply"; exit 2; }
cd /verif
./check "$prop" --tier "$tier" "$@" > /tmp/vxlogs/seedtest.$prop.log 2>&1
rc=$?
cp evidence/$prop.json /tmp/vxlogs/seedtest.$prop.evidence.json 2>/dev/null
git -C /repo checkout -- . 
git -C /verif checkout -- evidence/$prop.json 2>/dev/null
echo "exit=$rc"
grep -c "^VIOLATION" /tmp/vxlogs/seedtest.$prop.log
grep "^VIOLATION" -A1 /tmp/vxlogs/seedtest.$prop.log | grep -v "^VIOLATION\|^--" | cut -c1-260 | head -8
grep "^SUMMARY" /tmp/vxlogs/seedtest.$prop.log | cut -c1-300
