#!/bin/sh
cd /verif
: > /tmp/vxlogs/seed_regress.summary
for d in seeded/*/; do
  id=$(basename $d)
  res=$(python3 -c "import json;print(json.load(open('$d/meta.json'))['check_result'])")
  prop=$(python3 -c "import json;print(json.load(open('$d/meta.json'))['property'])")
  [ "$res" = "missed" ] && { echo "$id SKIP (recorded as missed)" >> /tmp/vxlogs/seed_regress.summary; continue; }
  case $id in C01a) prop=C17;; C13b) prop=C10;; esac
  fl=""; case $prop in C01|C28) fl="--solver-ms 5000";; C18) fl="--solver z3-new";; esac
  start=$(date +%s)
  out=$(tools/seedtest.sh /verif/$d/patch.diff $prop quick $fl 2>&1 | grep -v WARNING)
  end=$(date +%s)
  rc=$(echo "$out" | grep -o "exit=[0-9]*" | head -1)
  nv=$(grep -c "^VIOLATION" /tmp/vxlogs/seedtest.$prop.log)
  echo "$id via $prop $rc violations=$nv secs=$((end-start))" >> /tmp/vxlogs/seed_regress.summary
done
echo ALLDONE >> /tmp/vxlogs/seed_regress.summary
