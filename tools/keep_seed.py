#!/usr/bin/env python3
"""tools/keep_seed.py <id> <property> <demo-pkg> <caught: quick|thorough|missed> "<needs>" "<detected by / why missed>"
Copies a confirmed seeded change from /tmp/seed/out/<id> into /verif/seeded/<id>/ with meta.json."""
import sys, os, shutil, json, re
sid, prop, pkg, caught, needs, how = sys.argv[1:7]
src = f"/tmp/seed/out/{sid}"; dst = f"/verif/seeded/{sid}"
os.makedirs(dst, exist_ok=True)
patch = "patch.rebased.diff" if os.path.exists(f"{src}/patch.rebased.diff") else "patch.diff"
shutil.copy(f"{src}/{patch}", f"{dst}/patch.diff")
for f in os.listdir(src):
    if f.startswith("zz_seed_demo") or f.endswith(".elk") or f == "README.md":
        shutil.copy(f"{src}/{f}", f"{dst}/{f}")
if os.path.isdir(f"{src}/demo"):
    shutil.copytree(f"{src}/demo", f"{dst}/demo", dirs_exist_ok=True)
ver = {}
vf = f"/tmp/seed/verify/{sid}.txt"
if os.path.exists(vf):
    for l in open(vf):
        m = re.match(r"(\w+)_exit=(\d+)", l.strip())
        if m: ver[m.group(1)] = int(m.group(2))
        if l.startswith("seed "): ver["at_commit"] = l.split()[-1]
        if l.startswith("rerun"): ver.setdefault("reruns", []).append(l.strip())
files = sorted(set(re.findall(r"^\+\+\+ b/(\S+)", open(f"{dst}/patch.diff").read(), re.M)))
meta = {
 "id": sid, "property": prop, "files_changed": files,
 "needs_to_manifest": needs,
 "demonstration": f"zz_seed_demo_test.go placed in {pkg}/ : fails with the patch, passes without it (go test -run Seed ./{pkg}/)",
 "confirmed_by_me": {"in": "scratch worktree of /repo (removed afterwards)", "commands": ["go test -mod=mod -vet=off -count=1 -run Seed ./%s/ (without patch: pass)" % pkg, "git apply patch.diff; go build ./...", "go test ... -run Seed ./%s/ (with patch: fail)" % pkg, "go test -mod=mod -vet=off -count=1 -timeout 25m ./... (with patch: pass; vm has a load-sensitive goroutine test that is re-run)"], "results": ver},
 "check_result": caught, "detected_by_or_why_missed": how,
 "how_checked": "tools/seedtest.sh seeded/%s/patch.diff %s <tier> (git -C /repo apply; ./check; git -C /repo checkout -- .)" % (sid, prop),
}
json.dump(meta, open(f"{dst}/meta.json", "w"), indent=1)
print("kept", dst, ver)
